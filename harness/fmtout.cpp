// C11 - ST::format output against the reference renderer of rt/ref_format.h:
// literals, brace escapes, sequential and &N argument selection, integer /
// text / bool / character renderings, width, precision, alignment, padding.
#include "vrt.h"
#include "vrt_alloc.h"
#include "vrt_st.h"
#include "ref_format.h"
#include "gen_text.h"
#include "gen_scale.h"
#include "ambient.h"

using vrt::Rng;
using vrt::sfmt;
using namespace fmtref;

static std::string show(const S &s) { return vrt::hex(s.data(), s.size(), 1, 120); }

struct Built {
    S fmt;                 // the format string
    bool ok = true;        // reference expects output (vs an exception)
    const char *expect_exc = "";
    S want;
};

// builds the expected outcome for fields applied to args
static Built build(const std::vector<S> &lits, const std::vector<Field> &fields, const std::vector<Arg> &args)
{
    Built b;
    size_t seq = 0;
    b.fmt = lits[0];
    b.want = literal_output(lits[0]);
    for (size_t i = 0; i < fields.size(); ++i) {
        const Field &f = fields[i];
        b.fmt += field_text(f);
        if (b.ok) {
            size_t idx;
            if (f.argref > 0) idx = static_cast<size_t>(f.argref) - 1;
            else idx = seq++;
            if (idx >= args.size()) { b.ok = false; b.expect_exc = "std::out_of_range"; }
            else {
                S piece;
                if (render_field(f, args[idx], piece) == CONTRACT_ASSERT) { b.ok = false; b.expect_exc = "assert"; }
                else { b.want += piece; b.want += literal_output(lits[i + 1]); }
            }
        }
        b.fmt += lits[i + 1];
    }
    if (b.ok && !ref::utf8_ok(b.want)) { b.ok = false; b.expect_exc = "ST::unicode_error"; }
    return b;
}

// One call, prepared: the reference's verdict, the argument descriptions and the recorder's note are computed once; execute()
// makes the library call and compares (the soak phase executes a prepared call many times).
struct Prepared {
    int shape = 0;
    std::vector<Field> fields;
    std::vector<Arg> args;
    Built b;
    S note;
};
static bool prepare(int shape, const Values &v, const std::vector<S> &lits, const std::vector<Field> &fields, Prepared &p)
{
    p.shape = shape;
    p.fields = fields;
    call_shape_x(shape, v, "", &p.args, [](const char *, auto &&...) {});     // describe only
    p.b = build(lits, fields, p.args);
    if (p.b.expect_exc[0] == 'a') return false;                              // padded {c}: documented contract assertion, not generated here
    p.note = sfmt("shape=%d fmt=%s args: %s\n", shape, show(p.b.fmt).c_str(), describe_values(p.args).c_str());
    return true;
}
static void execute(const Prepared &p, const Values &v)
{
    const int shape = p.shape;
    const Built &b = p.b;
    const std::vector<Arg> &args = p.args;
    const std::vector<Field> &fields = p.fields;
    vrt::Exact<char> f(b.fmt.data(), b.fmt.size(), true);
    vrt::cur_rewind();
    vrt::cur_printf("%s", p.note.c_str());
    S got;
    const char *exc = "";
    S what;
    vrt::evals();
    try {
        call_shape_x(shape, v, f.data(), nullptr, [&](const char *fs, auto &&...a) {
            ST::string r = ST::format(fs, a...);
            got.assign(r.c_str(), r.size());
            if (r.c_str()[r.size()] != 0) vrt::violation("C11:no-terminator", show(b.fmt));
        });
    } catch (const ST::unicode_error &e) { exc = "ST::unicode_error"; what = e.what();
    } catch (const ST::bad_format &e) { exc = "ST::bad_format"; what = e.what();
    } catch (const std::out_of_range &e) { exc = "std::out_of_range"; what = e.what();
    } catch (const std::invalid_argument &e) { exc = "std::invalid_argument"; what = e.what(); }
    // (big format strings and results are reported by length, hash and the bytes around the first difference)
    const bool big = b.fmt.size() > 2000 || b.want.size() > 2000 || got.size() > 2000;
    const auto context = [&]() {
        std::string ctx = big ? sfmt("shape=%d fmt: %s (starts: %s) args: %s", shape, scale::brief(b.fmt).c_str(), vrt::json_escape(b.fmt.substr(0, 60)).c_str(), describe_values(args).c_str())
                              : sfmt("fmt=%s (text: %s) args: %s", show(b.fmt).c_str(), vrt::json_escape(b.fmt).c_str(), describe_values(args).c_str());
        if (big && b.ok && !*exc && got != b.want) {
            const size_t d = scale::first_diff(got, b.want);
            ctx += sfmt(" first difference at byte %zu: got %s want %s;", d, scale::brief(got, d).c_str(), scale::brief(b.want, d).c_str());
        }
        return ctx;
    };
    if (b.ok) {
        if (*exc) vrt::violation(sfmt("C11:unexpected-%s", exc), sfmt("%s: %s; want=%s", context().c_str(), what.c_str(), show(b.want).c_str()));
        else if (got != b.want) {
            // classify the mismatch for a readable key
            const char *cat = "wrong-output";
            if (fields.size() == 1 && !big) {         // (a big format string with one field: the literal runs are the subject)
                const Arg *a = nullptr;
                size_t idx = fields[0].argref > 0 ? fields[0].argref - 1 : 0;
                if (idx < args.size()) a = &args[idx];
                if (a && a->is_integer()) cat = fields[0].cls == 'c' ? "wrong-char-rendering" : "wrong-integer-rendering";
                else if (a) cat = "wrong-text-rendering";
            }
            vrt::violation(sfmt("C11:%s", cat), sfmt("%s got=%s (%s) want=%s (%s)", context().c_str(), show(got).c_str(), vrt::json_escape(got).substr(0, 100).c_str(),
                                                     show(b.want).c_str(), vrt::json_escape(b.want).substr(0, 100).c_str()));
        }
        static uint64_t &rendered = vrt::counter("outcome.rendered");
        ++rendered;
    } else {
        if (!*exc) vrt::violation(sfmt("C11:missing-%s", b.expect_exc), sfmt("%s got=%s", context().c_str(), show(got).c_str()));
        else if (S(exc) != b.expect_exc) vrt::violation(sfmt("C11:wrong-exception-%s-instead-of-%s", exc, b.expect_exc), context());
        vrt::count(S("outcome.") + b.expect_exc);
    }
    for (const Field &f : fields) {
        if (f.argref) vrt::count("field.with_argref");
        if (f.padkind == 2) vrt::count("field.zero_pad");
        if (f.padkind == 1) vrt::count("field.custom_pad");
        if (f.alt) vrt::count("field.alt");
        if (f.precision >= 0) vrt::count("field.precision");
        if (f.cls == 'c') vrt::count("field.char_class");
    }
    if (fields.size() > 1) vrt::count("format.multi_field");
    vrt::distinct(vrt::fnv1a(b.want.data(), b.want.size(), vrt::fnv1a(b.fmt.data(), b.fmt.size(), static_cast<uint64_t>(shape) + 91)));
    if (vrt::want_sample("format") && fields.size() >= 2 && b.ok && b.want.size() > 8 && !big)
        vrt::sample("format", sfmt("ST::format(\"%s\", %s) == \"%s\"", vrt::json_escape(b.fmt).c_str(), describe_values(args).c_str(), vrt::json_escape(b.want).c_str()));
}
static void run(int shape, const Values &v, const std::vector<S> &lits, const std::vector<Field> &fields)
{
    Prepared p;
    if (prepare(shape, v, lits, fields, p)) execute(p, v);
}

// integer boundary values for the cross product, stored into every integer member
static void set_ints(Values &v, unsigned long long mag, bool neg)
{
    long long s = neg ? static_cast<long long>(0ull - mag) : static_cast<long long>(mag);
    v.sc = static_cast<signed char>(s); v.uc = static_cast<unsigned char>(mag);
    v.s = static_cast<short>(s); v.us = static_cast<unsigned short>(mag);
    v.i = static_cast<int>(s); v.u = static_cast<unsigned int>(mag);
    v.l = static_cast<long>(s); v.ul = static_cast<unsigned long>(mag);
    v.ll = s; v.ull = mag;
}

// ---------------------------------------------------------------- "state that survives a call" / "where the data lives"
// (rt/ref_format.h, sections 5-7): formatters that call back into the library, the caller's stack, format strings behind
// foreign bytes, buffers rewritten in place, tens of thousands of consecutive calls in one case - all through run() / execute()

// the body of the "random" phase as a function: a random shape, 0..4 fields
static void random_call(Rng &r, Values &v, int &shape, std::vector<S> &lits, std::vector<Field> &fields)
{
    random_values(r, v);
    shape = static_cast<int>(r.below(NSHAPES));
    std::vector<Arg> args;
    call_shape(shape, v, "", &args, [](const char *, auto &&...) {});
    const size_t nf = r.below(5);
    lits = {random_literal(r)};
    fields.clear();
    for (size_t k = 0; k < nf; ++k) {
        Field f = random_field(r, false);
        if (r.chance(1, 3)) f.argref = static_cast<int>(r.chance(1, 12) ? args.size() + 1 + r.below(3) : (args.empty() ? 1 : 1 + r.below(args.size())));
        fields.push_back(f);
        lits.push_back(random_literal(r));
    }
}

struct SoakEntry {
    Values v;
    Reent x;
    Prepared p;
    int mode = 0;
    size_t slot = 256, align = 0;
    int depth = 0;
    unsigned rot = 0;
    bool usable = false;
};
static void soak_execute(SoakEntry &e)
{
    Placement &pl = placement();
    pl.mode = e.mode; pl.slot = e.slot; pl.depth = e.depth; pl.rot = e.rot; pl.align = e.align;
    ReentScope rs(&e.x);
    execute(e.p, e.v);
}
// flavour 0: boring (ASCII only, short, at most one plain field); 1: random; 2: interesting
static std::unique_ptr<SoakEntry> soak_entry(Rng &r, int flavour)
{
    for (;;) {
        std::unique_ptr<SoakEntry> e(new SoakEntry);
        ReentScope rs(&e->x);
        int shape = 0;
        std::vector<S> lits;
        std::vector<Field> fields;
        if (flavour == 0) {
            random_values(r, e->v);
            set_all_texts(e->v, compose(r, r.below(20), BG_ASCII_RANDOM));
            static const int shapes[] = {0, 1, 2, 3, 5, 45, 32};
            shape = r.pick(shapes);
            lits = {compose(r, 1 + r.below(30), BG_ASCII_RANDOM)};
            if (shape != 0 && r.chance(1, 2)) { fields.push_back(plain_field(0)); lits.push_back(compose(r, r.below(8), BG_ASCII_RANDOM)); }
        } else if (flavour == 1) {
            random_call(r, e->v, shape, lits, fields);
            if (r.chance(1, 6)) {       // ... in a buffer that is rewritten in place by the next call of the same length
                static const size_t lens[] = {40, 64, 100};
                std::vector<Arg> args;
                call_shape(shape, e->v, "", &args, [](const char *, auto &&...) {});
                ScaleFmt sf;
                token_fill(r, args.size(), r.pick(lens), false, 20, sf);
                lits = sf.lits; fields = sf.fields;
                e->mode = 3; e->align = r.below(16);
            }
        } else {
            ScaleFmt sf;
            switch (r.below(6)) {
            case 0: reentrant_case(r, e->v, shape, sf); break;
            case 1: { Placement pl; stack_case(r.below(200), r, e->v, shape, sf, pl, false); e->mode = 1; e->slot = pl.slot; e->depth = pl.depth; e->rot = pl.rot; break; }
            case 2: {   // the only characters that are not ASCII sit in the last 1..7 bytes of a text of 16 bytes or more (argument or literal)
                random_values(r, e->v);
                const size_t n = 16 + r.below(300), tail = 2 + r.below(6);
                std::vector<Plant> plants{Plant{n - tail, mb_char(r, static_cast<unsigned>(std::min<size_t>(tail, 2 + r.below(3))))}};
                const S t = compose(r, n, BG_ASCII_RANDOM, plants);
                static const int shapes[] = {2, 3, 31, 32, 5, 7, 45, 34, 38, 42, 13, 200};
                shape = r.pick(shapes);
                if (r.chance(1, 2)) { set_all_texts(e->v, t); std::vector<Arg> args; call_shape(shape, e->v, "", &args, [](const char *, auto &&...) {}); sf.lit(random_literal(r)); sf.field(plain_field(static_cast<int>(pick_text_arg(r, args, false) + 1))); }
                else { sf.lit(t); if (r.chance(1, 2)) sf.field(plain_field(1)); }
                break;
            }
            case 3: { ArgCase c; scale_arg_case(r.below(84), r, e->v, c, 6000, 6000); shape = c.shape; sf = c.f; for (Field &f : sf.fields) if (f.width > 6000) f.width = 6000; break; }
            case 4: {   // the last append takes the output across 256 / 512 bytes
                random_values(r, e->v);
                shape = 5;
                const size_t C = r.chance(2, 3) ? 256 : 512, P = 1 + r.below(40), B = C - r.below(P);
                set_all_texts(e->v, compose(r, P, BG_ASCII_RANDOM));
                sf.lit(compose(r, B, BG_ASCII_RANDOM)); sf.field(plain_field(r.chance(1, 2) ? 2 : 4));
                break;
            }
            default: random_call(r, e->v, shape, sf.lits, sf.fields); if (sf.fields.size()) sf.fields[r.below(sf.fields.size())].argref = 9; break;    // mostly std::out_of_range
            }
            lits = sf.lits; fields = sf.fields;
        }
        if (!prepare(shape, e->v, lits, fields, e->p)) continue;
        if (flavour == 0 && (!e->p.b.ok || e->p.b.want.size() > 200)) continue;
        e->usable = true;
        return e;
    }
}

static void history_phases()
{
    // ---- re-entrancy: two and three arguments whose formatters call ST::format, recursive formatters, nested failures
    vrt::note("history phases: (reentrant) argument types whose format_type() calls ST::format / writef / printf itself - two and three of them in one call, trees of depth 2..4 whose nested calls have the "
              "signature of the running call, nested calls that throw and are caught; (stack) format string and text arguments in local arrays of 64 B..8 KiB right above the library's frames, the output "
              "outgrowing 256, 512, ... bytes with one append; (same_storage) format strings and arguments of identical size rewritten in place / rebuilt at the same address; (soak) more than 70000 "
              "consecutive calls in one case; (alignment) format strings of 32..200 bytes at every start alignment with braces directly in front of them");
    vrt::require("reentrant.cases", 10000);
    vrt::require("reentrant.nested_calls_of_recursive_formatters", 20000);
    vrt::require("reentrant.nested_call_with_the_signature_of_a_running_call", 10000);
    vrt::require("reentrant.nested_call_with_the_signature_of_two_or_more_running_calls", 2000);
    vrt::require("reentrant.nested_call_threw_and_was_caught_in_the_formatter", 3000);
    vrt::require("reentrant.nested_call_through_writef", 2000);
    vrt::require("reentrant.nested_call_through_printf", 2000);
    vrt::require("reentrant.values_with_a_tree_of_depth_4", 1000);
    vrt::require("reentrant.two_or_more_nested_formatters_ran_in_one_call", 5000);
    vrt::require("reentrant.field_behind_a_nested_formatter", 5000);
    for (int k = 0; k < N_REENT_SHAPES; ++k) vrt::require(sfmt("reentrant.shape.%d", REENT_SHAPES[k]), 300);
    vrt::phase("reentrant", vrt::tier_count(32000, 1000000), [&](uint64_t, Rng &r) {
        PlacementScope ps;
        Values v;
        int shape = 0;
        ScaleFmt sf;
        reentrant_case(r, v, shape, sf);
        std::vector<Arg> args;
        call_shape_x(shape, v, "", &args, [](const char *, auto &&...) {});
        size_t nested = 0, seq = 0;
        bool behind = false;
        for (const Field &f : sf.fields) {
            const size_t idx = f.argref ? static_cast<size_t>(f.argref - 1) : seq++;
            if (idx >= args.size()) continue;
            if (nested) behind = true;
            if (strchr(args[idx].type, '(')) ++nested;          // "Nested (...)", "Tree (...)", "Catcher (...)"
        }
        if (nested >= 2) vrt::count("reentrant.two_or_more_nested_formatters_ran_in_one_call");
        if (behind) vrt::count("reentrant.field_behind_a_nested_formatter");
        run(shape, v, sf.lits, sf.fields);
        if (vrt::want_sample("reentrant") && nested >= 2 && sf.len < 60)
            vrt::sample("reentrant", sfmt("shape %d, format \"%s\" over %s", shape, vrt::json_escape(sf.text()).c_str(), describe_values(args).substr(0, 300).c_str()));
    });

    // ---- the caller's stack
    vrt::require("stack.cases", 4000);
    vrt::require("stack.calls_with_format_string_and_arguments_in_the_caller's_frame", 4000);
    vrt::require("stack.piece_is_a_text_argument", 1500);
    vrt::require("stack.piece_is_a_literal_run", 500);
    vrt::require("stack.piece_is_the_rendering_of_a_number", 400);
    vrt::require("stack.lowest_array_less_than_4096_bytes_above_the_call", 2000);
    vrt::require("stack.format_string_less_than_4096_bytes_above_the_call", 1000);
    vrt::require("stack.output_crosses_256_bytes_in_one_append", 1500);
    vrt::require("stack.output_crosses_512_bytes_in_one_append", 200);
    vrt::require("stack.output_crosses_8192_bytes_in_one_append", 200);
    vrt::require("stack.output_is_exactly_at_the_capacity_before_the_append", 500);
    vrt::phase("stack", vrt::tier_count(6000, 200000), [&](uint64_t i, Rng &r) {
        PlacementScope ps;
        Values v;
        int shape = 0;
        ScaleFmt sf;
        stack_case(i, r, v, shape, sf, placement(), false);
        run(shape, v, sf.lits, sf.fields);
        // ... and a call with formatters that re-enter the library from there
        if (r.chance(1, 8)) {
            Values v2;
            ScaleFmt sf2;
            reentrant_case(r, v2, shape, sf2);
            run(shape, v2, sf2.lits, sf2.fields);
        }
        if (vrt::want_sample("stack") && sf.len < 80)
            vrt::sample("stack", sfmt("shape %d, format \"%s\" and its text arguments in local arrays of %zu bytes, %d frames above the call", shape, vrt::json_escape(sf.text()).c_str(), placement().slot, placement().depth));
    });

    // ---- the same storage, different contents
    vrt::require("same_storage.cases", 600);
    vrt::require("same_storage.contents", 2500);
    vrt::require("same_storage.format_string_rewritten_in_place", 1500);
    vrt::require("same_storage.argument_buffers_rewritten_in_place", 5000);
    vrt::require("same_storage.ST::string_successors_of_the_same_size", 1000);
    vrt::require("same_storage.ST::string_heap_block_at_the_address_of_its_predecessor", 500);
    vrt::require("same_storage.failing_call_between_two_contents", 500);
    vrt::phase("same_storage", vrt::tier_count(800, 24000), [&](uint64_t i, Rng &r) {
        PlacementScope ps;
        static const size_t LS[] = {33, 40, 64, 100, 256, 300, 1024, 1500, 4096, 5000, 16387};
        static const size_t AS[] = {20, 40, 64, 100, 256, 300, 1024, 1500, 4096, 5000};
        const size_t L = LS[i % 11], A = AS[(i / 11) % 10], K = 3 + r.below(4);
        placement().mode = 3;
        placement().align = r.below(16);
        const size_t arg_align = r.below(16);
        CallerTexts ct;
        Values v;
        random_values(r, v);
        static const int shapes[] = {5, 7, 45, 13, 2, 32, 200, 202, 8, 14, 3, 15, 46, 34, 42, 36};
        const int shape = r.pick(shapes);
        std::vector<Arg> args;
        call_shape(shape, v, "", &args, [](const char *, auto &&...) {});
        std::vector<ScaleFmt> fmts;
        std::vector<S> texts;
        same_storage_formats(r, args.size(), L, K, false, fmts);
        same_storage_texts(r, A, K, texts);
        for (size_t k = 0; k < K; ++k) {
            ST::string prev(std::move(v.st));
            ct.set(v, texts[k], arg_align);
            succeed_st(v, prev, texts[k]);
            run(shape, v, fmts[k].lits, fmts[k].fields);
            vrt::count("same_storage.contents");
            if (r.chance(1, 2)) {       // a call that fails, from the same buffers (same length: a one-digit argument index becomes 9)
                std::vector<Field> bad = fmts[k].fields;
                std::vector<size_t> cand;
                for (size_t q = 0; q < bad.size(); ++q) if (bad[q].argref >= 1 && bad[q].argref <= 8) cand.push_back(q);
                if (!cand.empty() && args.size() < 9) {
                    bad[r.pick(cand)].argref = 9;
                    run(shape, v, fmts[k].lits, bad);
                    vrt::count("same_storage.failing_call_between_two_contents");
                }
            }
        }
        vrt::count("same_storage.cases");
        if (vrt::want_sample("same_storage") && L == 64)
            vrt::sample("same_storage", sfmt("shape %d: %zu format strings of %zu bytes in one buffer (\"%s\", \"%s\", ...), text arguments of %zu bytes rewritten in place", shape, K, L,
                                             vrt::json_escape(fmts[0].text()).c_str(), vrt::json_escape(fmts[1].text()).c_str(), A));
    });

    // ---- soak
    vrt::require("soak.cases_with_70000_or_more_consecutive_calls", 16);
    vrt::require("soak.runs_of_64_or_more_equal_calls_then_an_interesting_one", 1000);
    vrt::phase("soak", vrt::thorough() ? 64 : 16, [&](uint64_t, Rng &r) {
        PlacementScope ps;
        const size_t M = 40;
        std::vector<std::unique_ptr<SoakEntry>> pool, boring;
        for (size_t k = 0; k < M; ++k) pool.push_back(soak_entry(r, k % 4 == 3 ? 2 : 1));
        for (size_t k = 0; k < 6; ++k) boring.push_back(soak_entry(r, 0));
        uint64_t calls = 0, runs = 0;
        while (calls < 72000) {
            if (r.chance(1, 150)) {
                SoakEntry &b = *boring[r.below(boring.size())];
                std::unique_ptr<SoakEntry> next = soak_entry(r, 2);
                const size_t n = 64 + r.below(237);
                for (size_t k = 0; k < n; ++k) soak_execute(b);
                soak_execute(*next);
                calls += n + 1;
                ++runs;
                if (r.chance(1, 4)) boring[r.below(boring.size())] = soak_entry(r, 0);
                pool[r.below(M)] = std::move(next);
            } else {
                soak_execute(*pool[r.below(M)]);
                ++calls;
                if (r.chance(1, 25)) pool[r.below(M)] = soak_entry(r, r.chance(1, 3) ? 2 : 1);
            }
        }
        vrt::count("soak.calls", calls);
        vrt::count("soak.runs_of_64_or_more_equal_calls_then_an_interesting_one", runs);
        if (calls >= 70000) vrt::count("soak.cases_with_70000_or_more_consecutive_calls");
        if (vrt::want_sample("soak")) vrt::sample("soak", sfmt("%llu consecutive ST::format calls of mixed shapes in one case, %llu runs of 64..300 equal plain calls each followed by an interesting one",
                                                               static_cast<unsigned long long>(calls), static_cast<unsigned long long>(runs)));
    });

    // ---- format strings behind foreign bytes, at every start alignment
    vrt::require("alignment.format_strings", 1000);
    vrt::require("alignment.calls_with_a_format_string_behind_foreign_bytes", 90000);
    const unsigned usual_budget = vrt::case_cpu_budget();
    vrt::case_cpu_budget() = 8;                 // (small cases: a parser that runs away from such a string is stopped early)
    vrt::phase("alignment", vrt::tier_count(1020, 40800), [&](uint64_t i, Rng &r) {
        PlacementScope ps;
        Values v;
        random_values(r, v);
        static const int shapes[] = {1, 2, 3, 5, 6, 7, 9, 10, 12, 47, 0, 200};
        const int shape = r.pick(shapes);
        std::vector<Arg> args;
        call_shape(shape, v, "", &args, [](const char *, auto &&...) {});
        ScaleFmt sf;
        alignment_format(i, r, args.size(), false, sf);
        Placement &pl = placement();
        pl.mode = 2;
        for (size_t a = 0; a < 16; ++a)
            for (int q = 0; q < N_ALIGN_PREFIXES; ++q) {
                pl.align = a;
                pl.prefix = ALIGN_PREFIXES[q];
                pl.fill_with_prefix = ((a + static_cast<size_t>(q) + i) % 2) != 0;
                run(shape, v, sf.lits, sf.fields);
            }
        if (vrt::want_sample("alignment") && sf.len < 50)
            vrt::sample("alignment", sfmt("shape %d, format \"%s\" at every address modulo 16 with {, }, {{, }}, {} and }{ directly in front of it in the same block", shape, vrt::json_escape(sf.text()).c_str()));
    });
    vrt::case_cpu_budget() = usual_budget;
}

static void body()
{
    ambient::enable(3);
    vrt::require("outcome.rendered", 10000);
    vrt::require("outcome.std::out_of_range", 100);
    vrt::require("outcome.ST::unicode_error", 20);
    vrt::require("field.with_argref", 1000);
    vrt::require("field.zero_pad", 1000);
    vrt::require("field.custom_pad", 1000);
    vrt::require("field.alt", 1000);
    vrt::require("field.precision", 1000);
    vrt::require("field.char_class", 500);
    vrt::require("format.multi_field", 1000);
    vrt::require("grid.cases", 10000);

    // ---- full cross product for one field over integer values of every type
    static const unsigned long long mags[] = {0, 1, 2, 5, 7, 8, 9, 10, 15, 16, 17, 100, 127, 128, 255, 256, 0x41, 0xE9, 0x7FFF, 0x8000, 0xFFFF, 0xD800, 0x10FFFF, 0x110000,
                                              0x7FFFFFFFull, 0x80000000ull, 0xFFFFFFFFull, 0x100000041ull, 0x7FFFFFFFFFFFFFFFull, 0x8000000000000000ull, 0xFFFFFFFFFFFFFFFFull};
    static const int int_shapes[] = {16, 17, 18, 19, 1, 20, 21, 22, 23, 24};
    static const char classes[] = {0, 'd', 'x', 'X', 'o', 'b', 'c'};
    static const char aligns[] = {0, '<', '>'};
    const size_t nm = sizeof(mags) / sizeof(mags[0]);
    vrt::note("single-field grid: alignment{default,<,>} x pad{none,_*,0} x width{0,natural-1,natural,natural+1,natural+7} x '#' x '+' x class{default,d,x,X,o,b,c} x 31 magnitudes x sign x 10 integer types");
    vrt::phase("int_grid", nm * 2, [&](uint64_t i, Rng &r) {
        Values v;
        random_values(r, v);
        set_ints(v, mags[i / 2], i % 2 != 0);
        for (int shape : int_shapes)
            for (char cls : classes)
                for (char al : aligns)
                    for (int pk = 0; pk < 5; ++pk)          // none, _*, 0, "0 then _*" (= _*), "_# then 0" (= 0)
                        for (int alt = 0; alt < 2; ++alt)
                            for (int plus = 0; plus < 2; ++plus) {
                                Field f;
                                f.cls = cls; f.align = al; f.padkind = pk < 3 ? pk : pk == 3 ? 1 : 2; f.overridden = pk == 3 ? 2 : pk == 4 ? 1 : 0;
                                f.padc = '*'; f.alt = alt; f.plus = plus;
                                f.order = {0, 1, 2, 3, 4, 5, 6, 7};
                                // natural length from the reference itself
                                std::vector<Arg> args;
                                call_shape(shape, v, "", &args, [](const char *, auto &&...) {});
                                S nat;
                                Field bare = f;
                                bare.padkind = 0; bare.width = 0;
                                render_field(bare, args[0], nat);
                                if (cls == 'c') {
                                    if (al || pk) continue;           // padding on {c} is the contract assertion
                                    run(shape, v, {"", ""}, {f});
                                    vrt::count("grid.cases");
                                    continue;
                                }
                                int n = static_cast<int>(nat.size());
                                for (int w : {0, n - 1, n, n + 1, n + 7}) {
                                    if (w < 0) continue;
                                    f.width = w;
                                    run(shape, v, {"", ""}, {f});
                                    vrt::count("grid.cases");
                                }
                            }
    });

    // ---- text / bool grid: precision x width x alignment x pad over strings of every length
    static const int text_shapes[] = {2, 3, 30, 31, 32, 33, 34, 35, 36, 37, 38, 39, 40, 41, 42, 43, 44};
    vrt::phase("text_grid", 40, [&](uint64_t i, Rng &r) {
        Values v;
        random_values(r, v);
        // strings of length 0..9 (ASCII) or with multi-byte characters
        size_t len = i % 10;
        bool multi = i >= 20;
        S t;
        for (size_t k = 0; k < len; ++k) { if (multi && k % 2) ref::enc_utf8(t, i >= 30 ? 0x1F600 + k : 0xE9 + k); else t += static_cast<char>('a' + k); }
        v.text = t; v.cstr = v.text.c_str(); v.st = ST::string::from_validated(t.data(), t.size()); v.ss = t;
        v.svback = "<" + t + ">tail"; v.sv = std::string_view(v.svback).substr(1, t.size());
        v.u8text.assign(reinterpret_cast<const char8_t *>(t.data()), t.size()); v.u8 = v.u8text.c_str(); v.s8 = v.u8text;
        v.u8back = u8"<" + v.u8text + u8">tail"; v.sv8 = std::u8string_view(v.u8back).substr(1, v.u8text.size());
        std::u32string w32;
        for (long cp : ref::decode_utf8(t)) w32 += static_cast<char32_t>(cp);
        v.u32text = w32; v.wtext.assign(w32.begin(), w32.end()); v.u16text.clear();
        for (char32_t c : w32) ref::enc_utf16(v.u16text, c);
        v.wstr = v.wtext.c_str(); v.u16 = v.u16text.c_str(); v.u32 = v.u32text.c_str();
        v.ws = v.wtext; v.s16 = v.u16text; v.s32 = v.u32text;
        v.wback = L"<" + v.wtext + L">tail"; v.u16back = u"<" + v.u16text + u">tail"; v.u32back = U"<" + v.u32text + U">tail";
        v.wsv = std::wstring_view(v.wback).substr(1, v.wtext.size()); v.sv16 = std::u16string_view(v.u16back).substr(1, v.u16text.size()); v.sv32 = std::u32string_view(v.u32back).substr(1, v.u32text.size());
        v.b = i % 2;
        int n = static_cast<int>(t.size());
        for (int shape : text_shapes)
            for (char al : aligns)
                for (int pk = 0; pk < 3; ++pk)
                    for (int prec : {-1, 0, 1, 2, n - 1, n, n + 1})
                        for (int w : {0, 1, n - 1, n, n + 1, n + 7, 20}) {
                            if (w < 0 || prec < -1) continue;
                            Field f;
                            f.align = al; f.padkind = pk; f.padc = '.'; f.precision = prec; f.width = w;
                            f.order = {0, 1, 2, 3, 4, 5, 6, 7};
                            run(shape, v, {"<", ">"}, {f});
                            vrt::count("grid.cases");
                        }
    });

    // ---- random: 0..4 fields, shuffled flag order, literals with brace escapes, mixed sequential / &N
    vrt::phase("random", vrt::tier_count(800000, 12000000), [&](uint64_t, Rng &r) {
        Values v;
        random_values(r, v);
        int shape = static_cast<int>(r.below(NSHAPES));
        std::vector<Arg> args;
        call_shape(shape, v, "", &args, [](const char *, auto &&...) {});
        size_t nf = r.below(5);
        std::vector<Field> fields;
        std::vector<S> lits = {random_literal(r)};
        for (size_t k = 0; k < nf; ++k) {
            Field f = random_field(r, false);
            if (r.chance(1, 3)) f.argref = static_cast<int>(r.chance(1, 12) ? args.size() + 1 + r.below(3) : (args.empty() ? 1 : 1 + r.below(args.size())));
            if (r.chance(1, 60)) f.argref = 0, f.order = {7, 0, 1, 2, 3, 4, 5, 6};
            fields.push_back(f);
            lits.push_back(random_literal(r));
        }
        // a literal must not end in a lone '{' ... (literals never contain one) and must not
        // merge "}" + "}" across a field boundary: fields start with '{', so they cannot
        run(shape, v, lits, fields);
    });
    // ---- U+0000 and the precision: sized string arguments (ST::string, std::string, views, converted wide strings) are cut to
    // the precision whatever their bytes are - U+0000 inside the kept part, at the cut, inside the cut part
    vrt::require("nul_precision.cases", 5000);
    vrt::require("nul_precision.U+0000_inside_the_kept_part_of_a_sized_string", 1000);
    vrt::require("nul_precision.U+0000_is_the_last_kept_byte", 500);
    vrt::require("nul_precision.U+0000_is_the_first_cut_byte", 500);
    vrt::require("nul_precision.U+0000_inside_the_cut_part", 1000);
    vrt::require("nul_precision.converted_wide_string", 1000);
    vrt::phase("nul_precision", vrt::tier_count(20000, 600000), [&](uint64_t, Rng &r) {
        Values v;
        int shape = 3;
        ScaleFmt sf;
        nul_precision_case(r, v, shape, sf);
        run(shape, v, sf.lits, sf.fields);
    });

    // ---- scale (rt/ref_format.h, last section): the same monitor (run) on format strings, arguments, renderings and pad runs of
    // several KiB to a MiB whose features sit on / next to multiples of block sizes
    const auto describe_only = [](const char *, auto &&...) {};
    static const size_t CAP = (1u << 20) + 8192;
    vrt::note("scale phases: (1) literal runs of up to 1 MiB in which {{ / }} / a field / a stray } / a 2-, 3-, 4-byte character / the end of the string begins q*B-k bytes "
              "(B over scale::blocks(), q in 1..8, k in 0..3) behind the start of the run or of the string, chained; (2) 255..70000 fields in one format string, "
              "argument lists of 9, 17 and 20; (3) text arguments of 1 KB..1 MiB with characters / U+0000 / the precision cut / the end on such multiples, "
              "pad runs of up to 200000 behind texts and numbers, characters on multiples of the output offset");
    vrt::require("scale.literal.cases", 300);
    vrt::require("scale.literal.token_straddles_a_multiple", 300);
    vrt::require("scale.literal.token_starts_on_a_multiple", 100);
    vrt::require("scale.literal.measured_from_start_of_run", 50);
    vrt::require("scale.literal.measured_from_start_of_string", 50);
    vrt::require("scale.literal.format_string>=64KiB", 100);
    vrt::require("scale.literal.format_string>=256KiB", 20);
    for (int t = 0; t < N_TOK; ++t) vrt::require(S("scale.literal.token.") + tok_name(t), 50);
    vrt::phase("scale_literals", vrt::tier_count(1344, 33600), [&](uint64_t i, Rng &r) {
        const LiteralPlan p = literal_plan(i, N_TOK);
        Values v;
        random_values(r, v);
        static const int shapes[] = {1, 2, 3, 5, 6, 7, 9, 10, 11, 12, 47, 200, 201, 202};
        const int shape = r.pick(shapes);
        std::vector<Arg> args;
        call_shape(shape, v, "", &args, describe_only);
        ScaleFmt sf;
        if (!scale_literal_chain(r, p, p.kind, args.size(), CAP, true, sf)) { vrt::count("scale.literal.skipped_too_large"); return; }
        run(shape, v, sf.lits, sf.fields);
        if (vrt::want_sample("scale") && sf.len > 20000)
            vrt::sample("scale", sfmt("format string of %zu bytes, %zu fields: %s begins at offsets %zu.. (block %zu, first multiple %zu, %zu bytes in front of it)", sf.len, sf.fields.size(),
                                      tok_name(p.kind), sf.starts.empty() ? 0 : sf.starts[0], p.B, p.q0, p.k0));
    });
    vrt::require("scale.fields.cases", 40);
    vrt::require("scale.fields.more_than_255_fields", 30);
    vrt::require("scale.fields.more_than_65535_fields", 8);
    vrt::require("scale.fields.more_than_16_arguments", 8);
    vrt::require("scale.fields.sequential_field_behind_255_others", 20);
    vrt::require("scale.fields.sequential_fields_one_more_than_arguments", 5);
    vrt::phase("scale_fields", vrt::tier_count(96, 2400), [&](uint64_t i, Rng &r) {
        Values v;
        random_values(r, v);
        static const int shapes[] = {200, 201, 202, 5, 47, 1, 10, 12, 200, 202};
        const int shape = r.pick(shapes);
        std::vector<Arg> args;
        call_shape(shape, v, "", &args, describe_only);
        ScaleFmt sf;
        scale_many_fields(i, r, args.size(), r.chance(1, 4), sf);
        run(shape, v, sf.lits, sf.fields);
    });
    vrt::require("scale.args.cases", 300);
    vrt::require("scale.args.whole_text", 50);
    vrt::require("scale.args.precision_cut", 50);
    vrt::require("scale.args.precision>=4096", 30);
    vrt::require("scale.args.text_with_pad_run", 50);
    vrt::require("scale.args.number_with_pad_run", 50);
    vrt::require("scale.args.pad_run>=65536", 20);
    vrt::require("scale.args.text_of_block_length", 50);
    vrt::require("scale.args.output_offset", 50);
    vrt::require("scale.args.text_argument>=64KiB", 100);
    vrt::require("scale.args.text_argument>=1MB", 5);
    vrt::require("scale.args.character_straddles_a_multiple", 50);
    vrt::require("scale.args.NUL_inside_the_kept_part", 5);
    vrt::require("scale.args.text_through_a_UTF-16_argument", 20);
    vrt::require("scale.args.text_through_a_UTF-32/wchar_t_argument", 20);
    vrt::phase("scale_args", vrt::tier_count(840, 21000), [&](uint64_t i, Rng &r) {
        Values v;
        ArgCase c;
        scale_arg_case(i, r, v, c, (1u << 20) + 4096, 1u << 21);
        run(c.shape, v, c.f.lits, c.f.fields);
        if (vrt::want_sample("scale-arguments")) vrt::sample("scale-arguments", sfmt("shape %d, format \"%s\": %s", c.shape, vrt::json_escape(c.f.text().substr(0, 80)).c_str(), c.what.c_str()));
    });
    history_phases();
    vrt::alloc::check_pairing("fmtout");
}

VRT_MAIN(body)
