// C19 - allocation failure propagates cleanly.  For every operation of a table
// of allocating operations the number N of allocations it performs is counted,
// then for k = 1..N the operation is re-run on fresh fixtures with exactly the
// k-th allocation made to throw (replaced operator new, countdown failpoint).
// Monitors: std::bad_alloc reaches the caller; every fixture object is still
// valid (readable, storage alive, previous value or empty), can be assigned to
// and destroyed; after teardown no library allocation survives; ASan watches
// for double / bad frees and use after free.
#include "vrt.h"
#include "vrt_alloc.h"
#include "vrt_st.h"
#include "ref_unicode.h"
#include "gen_text.h"
#include <sstream>

using vrt::Rng;
using vrt::sfmt;
namespace va = vrt::alloc;
typedef std::string S;

static std::string g_op;
static int64_t g_k = 0;
static std::string g_variant;

static void fail(const char *what, const std::string &detail)
{
    va::HarnessScope hs;
    vrt::violation(sfmt("C19:%s:%s", g_op.c_str(), what), sfmt("failing allocation #%lld of the call, fixtures %s: %s", static_cast<long long>(g_k), g_variant.c_str(), detail.c_str()));
}

template <typename T>
struct Obj {           // an object in a heap block of exactly sizeof(T) bytes
    T *p = nullptr;
    template <typename... A> void make(A &&...a) { void *m = malloc(sizeof(T)); p = new (m) T(std::forward<A>(a)...); }
    void kill() { if (p) { p->~T(); free(p); p = nullptr; } }
    bool inside(const void *q) const { const char *c = static_cast<const char *>(q), *lo = reinterpret_cast<const char *>(p); return c >= lo && c < lo + sizeof(T); }
    T &operator*() { return *p; }
    T *operator->() { return p; }
};

struct Fix {
    Obj<ST::string> s[3];
    S sv[3];
    Obj<ST::char_buffer> cb; S cbv;
    Obj<ST::utf16_buffer> b16; std::u16string b16v;
    Obj<ST::utf32_buffer> b32; std::u32string b32v;
    Obj<ST::wchar_buffer> bw; std::wstring bwv;
    Obj<ST::string_stream> ss; S ssv;
    // targets that got their value by copy construction (their in-object array was never written when the value is long)
    Obj<ST::char_buffer> cbc; S cbcv;
    Obj<ST::string> sc; S scv;
    Obj<ST::utf32_buffer> b32c; std::u32string b32cv;
    std::string stds;
    std::wstring stdw;
    // ill-formed text (what makes the repairing / substituting paths allocate) and its expected repair
    S bad8, bad8fix;
    std::u16string bad16; S bad16fix;
    std::u32string bad32; S bad32fix;
    bool stream_prefix_ok = false;   // the operation consists of several appends: after a fault any extension of the previous content is fine
    bool stream_moved = false;       // the operation moves the stream away: only structural validity is required of it
    Rng *r;

    void setup(Rng &rng, bool long_target, bool long_arg)
    {
        r = &rng;
        auto text = [&](size_t n) { S t; while (t.size() < n) { if (rng.chance(1, 5)) ref::enc_utf8(t, 0xE9); else t += static_cast<char>('a' + rng.below(26)); } return t; };
        sv[0] = text(long_target ? 40 + rng.below(30) : rng.below(15));
        sv[1] = text(long_arg ? 30 + rng.below(300) : 1 + rng.below(14));
        sv[2] = long_arg ? S("a, b,c ,, ") + text(30) + ", tail of a longer piece" : S("a,b c");
        for (int i = 0; i < 3; ++i) s[i].make(ST::string::from_validated(sv[i].data(), sv[i].size()));
        cbv = sv[1];
        cb.make(cbv.data(), cbv.size());
        ref::Decoded d = ref::decode_utf8(sv[1]);
        ref::to_utf16(d, false, b16v);
        ref::to_utf32(d, false, b32v);
        bwv.assign(b32v.begin(), b32v.end());
        b16.make(b16v.data(), b16v.size());
        b32.make(b32v.data(), b32v.size());
        bw.make(bwv.data(), bwv.size());
        cbc.make(*cb); cbcv = cbv;
        sc.make(*s[1]); scv = sv[1];
        b32c.make(*b32); b32cv = b32v;
        ss.make();
        ssv = text(long_target ? 250 + rng.below(600) : rng.below(200));
        ss->append(ssv.data(), ssv.size());
        stds = sv[1];
        stdw = bwv;
        {
            static const char *const junk[] = {"\x80", "\xC3", "\xE2\x82", "\xF0\x9F\x98", "\xFF", "\xC0\x80", "\xF4\x90\x80\x80"};
            const size_t pieces = long_arg ? 6 + rng.below(20) : 1 + rng.below(2);
            bad8.clear(); bad16.clear(); bad32.clear();
            for (size_t i = 0; i < pieces; ++i) {
                bad8 += text(rng.below(long_arg ? 9 : 3));
                bad8 += junk[rng.below(sizeof(junk) / sizeof(junk[0]))];
                for (size_t k = rng.below(4); k-- > 0;) { bad16 += static_cast<char16_t>('a' + rng.below(26)); bad32 += static_cast<char32_t>(0x100 + rng.below(0x400)); }
                bad16 += static_cast<char16_t>(rng.chance(1, 2) ? 0xD800 + rng.below(0x400) : 0xDC00 + rng.below(0x400));
                bad16 += u'-';
                bad32 += static_cast<char32_t>(0x110000 + rng.below(100));
            }
            bad8fix = ref::cleanup_utf8(bad8);
            bad16fix.clear(); ref::to_utf8(ref::decode_utf16(bad16.data(), bad16.size()), false, bad16fix);
            bad32fix.clear(); ref::to_utf8(ref::decode_utf32(bad32.data(), bad32.size()), false, bad32fix);
        }
    }
    void teardown()
    {
        for (auto &x : s) x.kill();
        cb.kill(); b16.kill(); b32.kill(); bw.kill(); ss.kill(); cbc.kill(); sc.kill(); b32c.kill();
    }

    template <typename T>
    void check_buffer(const char *name, Obj<ST::buffer<T>> &o, const std::basic_string<T> &prev)
    {
        const ST::buffer<T> &b = *o.p;
        const size_t n = b.size(), limit = (sizeof(ST::buffer<T>) - 16) / sizeof(T);
        if (n > prev.size() + 100000) { fail("object-corrupt", sfmt("%s reports size %zu", name, n)); o.p = nullptr; return; }
        if (n >= limit) {
            va::Block *blk = va::find(b.data());
            if (!blk) { fail("points-to-released-storage", sfmt("%s (size %zu) data() is not a live block", name, n)); o.p = nullptr; return; }
            if (blk->size != (n + 1) * sizeof(T)) fail("block-size", name);
        } else if (!o.inside(b.data())) { fail("points-outside-object", sfmt("%s (size %zu)", name, n)); o.p = nullptr; return; }
        std::basic_string<T> now(b.data(), n);
        if (!(now == prev || now.empty())) fail("neither-previous-value-nor-empty", sfmt("%s now %s", name, vrt::hex(now.data(), now.size(), sizeof(T), 30).c_str()));
        if (b.data()[n] != T()) fail("no-terminator", name);
    }
    void check_string(const char *name, Obj<ST::string> &o, const S &prev)
    {
        const ST::string &x = *o.p;
        const size_t n = x.size();
        if (n > prev.size() + 100000) { fail("object-corrupt", sfmt("%s reports size %zu", name, n)); o.p = nullptr; return; }
        if (n >= 16) {
            if (!va::find(x.c_str())) { fail("points-to-released-storage", sfmt("%s (size %zu) data() is not a live block", name, n)); o.p = nullptr; return; }
        } else if (!o.inside(x.c_str())) { fail("points-outside-object", sfmt("%s (size %zu)", name, n)); o.p = nullptr; return; }
        S now(x.c_str(), n);
        if (!(now == prev || now.empty())) fail("neither-previous-value-nor-empty", sfmt("%s now %s was %s", name, vrt::hex(now.data(), now.size(), 1, 30).c_str(), vrt::hex(prev.data(), prev.size(), 1, 30).c_str()));
        if (x.c_str()[n] != 0) fail("no-terminator", name);
    }
    void check_stream()
    {
        const ST::string_stream &x = *ss.p;
        const size_t n = x.size();
        if (n > ssv.size() + 100000) { fail("object-corrupt", sfmt("stream reports size %zu", n)); ss.p = nullptr; return; }
        const char *d = x.raw_buffer();
        if (!ss.inside(d)) {
            va::Block *blk = va::find(d);
            if (!blk) { fail("points-to-released-storage", "stream buffer is not a live block"); ss.p = nullptr; return; }
            if (blk->size < n) fail("stream-block-too-small", sfmt("size %zu in a block of %zu", n, blk->size));
        } else if (n > ST_STACK_STRING_SIZE) { fail("stream-overfull", ""); ss.p = nullptr; return; }
        S now(d, n);
        if (stream_moved) return;
        if (stream_prefix_ok ? !(now.empty() || (now.size() >= ssv.size() && now.compare(0, ssv.size(), ssv) == 0)) : !(now == ssv || now.empty()))
            fail("stream-neither-previous-nor-empty", sfmt("size %zu was %zu", n, ssv.size()));
    }
    // every fixture: still valid, previous value or empty; then assigned to, read, (destroyed in teardown)
    void verify_after_fault()
    {
        va::HarnessScope hs;
        for (int i = 0; i < 3; ++i) if (s[i].p) check_string(i == 0 ? "target string" : "argument string", s[i], sv[i]);
        if (cb.p) check_buffer<char>("char_buffer", cb, cbv);
        if (b16.p) check_buffer<char16_t>("utf16_buffer", b16, b16v);
        if (b32.p) check_buffer<char32_t>("utf32_buffer", b32, b32v);
        if (bw.p) check_buffer<wchar_t>("wchar_buffer", bw, bwv);
        if (ss.p) check_stream();
        if (cbc.p) check_buffer<char>("copy-constructed char_buffer", cbc, cbcv);
        if (b32c.p) check_buffer<char32_t>("copy-constructed utf32_buffer", b32c, b32cv);
        if (sc.p) check_string("copy-constructed string", sc, scv);
        // can still be assigned to and read
        if (s[0].p) { *s[0] = ST::string("assigned after the fault, long enough for the heap"); if (s[0]->size() != 50) fail("unusable-after-fault", "target string"); }
        if (cb.p) { *cb = ST::char_buffer("xyz", 3); if (cb->size() != 3) fail("unusable-after-fault", "char_buffer"); }
        if (b16.p) { b16->allocate(40, u'q'); if (b16->size() != 40 || (*b16)[39] != u'q') fail("unusable-after-fault", "utf16_buffer"); }
        if (ss.p) { size_t before = ss->size(); ss->append("tail", 4); if (ss->size() != before + 4) fail("unusable-after-fault", "stream"); }
        vrt::evals();
    }
};

struct Op {
    const char *name;
    std::function<void(Fix &)> run;
    bool iostream_protocol;     // failed stream state is an accepted way to report the failure
};

static std::vector<Op> table()
{
    std::vector<Op> t;
#define OP(n, body) t.push_back(Op{n, [](Fix &f) { (void)f; body; }, false})
#define IOP(n, body) t.push_back(Op{n, [](Fix &f) { (void)f; body; }, true})
// bookkeeping of the expected values: not a library allocation, never faulted
#define E(stmt) do { va::HarnessScope hs__; stmt; } while (0)
    // --- buffers, four element types
    OP("char_buffer(ptr,len)", ST::char_buffer x(f.sv[1].data(), f.sv[1].size()); (void)x);
    OP("utf16_buffer(ptr,len)", ST::utf16_buffer x(f.b16v.data(), f.b16v.size()); (void)x);
    OP("utf32_buffer(ptr,len)", ST::utf32_buffer x(f.b32v.data(), f.b32v.size()); (void)x);
    OP("wchar_buffer(ptr,len)", ST::wchar_buffer x(f.bwv.data(), f.bwv.size()); (void)x);
    OP("char_buffer(count,fill)", ST::char_buffer x(f.sv[1].size(), 'x'); (void)x);
    OP("utf32_buffer(count,fill)", ST::utf32_buffer x(f.sv[1].size(), U'x'); (void)x);
    OP("char_buffer copy-ctor", ST::char_buffer x(*f.cb); (void)x);
    OP("utf16_buffer copy-ctor", ST::utf16_buffer x(*f.b16); (void)x);
    OP("wchar_buffer copy-ctor", ST::wchar_buffer x(*f.bw); (void)x);
    OP("char_buffer=char_buffer", ST::char_buffer src(f.sv[2].data(), f.sv[2].size()); *f.cb = src; E(f.cbv = f.sv[2]));
    OP("utf16_buffer=utf16_buffer (long source)", ST::utf16_buffer src(60, u'z'); *f.b16 = src; E(f.b16v.assign(60, u'z')));
    OP("utf32_buffer=utf32_buffer (long source)", ST::utf32_buffer src(60, U'z'); *f.b32 = src; E(f.b32v.assign(60, U'z')));
    OP("wchar_buffer=wchar_buffer (long source)", ST::wchar_buffer src(60, L'z'); *f.bw = src; E(f.bwv.assign(60, L'z')));
    OP("char_buffer.allocate(n)", f.cb->allocate(100); memset(f.cb->data(), 'k', 100); E(f.cbv.assign(100, 'k')));
    OP("utf16_buffer.allocate(n,fill)", f.b16->allocate(100, u'k'); E(f.b16v.assign(100, u'k')));
    OP("utf32_buffer.allocate(n,fill)", f.b32->allocate(100, U'k'); E(f.b32v.assign(100, U'k')));
    OP("wchar_buffer.allocate(n)", f.bw->allocate(100); for (size_t i = 0; i < 100; ++i) (*f.bw)[i] = 0; E(f.bwv.assign(100, L'\0')));
    OP("copy-constructed char_buffer=char_buffer (long source)", ST::char_buffer src(70, 'z'); *f.cbc = src; E(f.cbcv.assign(70, 'z')));
    OP("copy-constructed utf32_buffer=utf32_buffer (long source)", ST::utf32_buffer src(60, U'z'); *f.b32c = src; E(f.b32cv.assign(60, U'z')));
    OP("copy-constructed string=string", *f.sc = *f.s[2]; E(f.scv = f.sv[2]));
    OP("copy-constructed string.set(const char*)", f.sc->set(f.sv[2].c_str()); E(f.scv = f.sv[2]));
    OP("utf32_to_wchar / wchar_to_utf32 (straight copies)", ST::wchar_buffer a = ST::utf32_to_wchar(*f.b32); ST::utf32_buffer b = ST::wchar_to_utf32(*f.bw); ST::wchar_buffer c = ST::utf32_to_wchar(f.b32v.data(), f.b32v.size()); (void)a; (void)b; (void)c);
    OP("utf16_to_wchar / wchar_to_utf16", ST::wchar_buffer a = ST::utf16_to_wchar(*f.b16); ST::utf16_buffer b = ST::wchar_to_utf16(*f.bw); (void)a; (void)b);
    OP("char_buffer.allocate(n,0) zero fill", f.cb->allocate(100, '\0'); E(f.cbv.assign(100, '\0')));
    OP("utf16_buffer.allocate(n,0) zero fill", f.b16->allocate(64, u'\0'); E(f.b16v.assign(64, u'\0')));
    OP("utf32_buffer.allocate(n,0) zero fill", f.b32->allocate(64, U'\0'); E(f.b32v.assign(64, U'\0')));
    OP("wchar_buffer.allocate(n,0) zero fill", f.bw->allocate(64, L'\0'); E(f.bwv.assign(64, L'\0')));
    OP("char_buffer(count,0) zero fill", ST::char_buffer x(f.sv[1].size() + 20, '\0'); (void)x);
    // --- operations that are not supposed to allocate at all (noexcept searches, comparisons, caller-buffer decoders): if one
    // of them starts to, the failing allocation must still not terminate the process or go unnoticed
    OP("find/contains/starts_with/ends_with (long needles)", volatile long sink = f.s[2]->find(*f.s[1]) + f.s[2]->find_last(*f.s[1]) + f.s[2]->contains(*f.s[1]) + f.s[2]->starts_with(*f.s[2]) + f.s[2]->ends_with(*f.s[2])
           + f.s[2]->find(f.stds.c_str(), ST::case_insensitive) + f.s[2]->ends_with(f.stds.c_str(), ST::case_insensitive) + f.s[2]->starts_with(*f.s[1], ST::case_insensitive); (void)sink);
    OP("compare/compare_i/==/hash (long operands)", volatile long sink = f.s[2]->compare(*f.s[1]) + f.s[2]->compare_i(*f.s[2]) + f.s[2]->compare_n(*f.s[1], 20) + (*f.s[2] == *f.s[1]) + (*f.s[2] < *f.s[1])
           + static_cast<long>(ST::hash()(*f.s[2]) & 0xff) + static_cast<long>(ST::hash_i()(*f.s[2]) & 0xff) + f.cb->compare(*f.cb) + f.b16->compare(*f.b16); (void)sink);
    OP("hex/base64 decode into a caller buffer", ST::string h = ST::hex_encode(f.sv[1].data(), f.sv[1].size()); ST::string b = ST::base64_encode(f.sv[1].data(), f.sv[1].size()); char out[2048];
           volatile long sink = static_cast<long>(ST::hex_decode(h, out, sizeof(out))) + static_cast<long>(ST::base64_decode(b, out, sizeof(out))) + static_cast<long>(ST::hex_decode(h, nullptr, 0)) + static_cast<long>(ST::base64_decode(b, nullptr, 0)); (void)sink);
    OP("to_int/to_double/to_bool (long text)", ST::conversion_result cr; volatile double sink = static_cast<double>(f.s[2]->to_long_long(cr)) + f.s[2]->to_double(cr) + f.s[2]->to_uint() + (f.s[2]->to_bool() ? 1 : 0); (void)sink);
    // --- strings
    OP("string(const char*)", ST::string x(f.stds.c_str()); (void)x);
    OP("string copy-ctor", ST::string x(*f.s[1]); (void)x);
    OP("string=string", *f.s[0] = *f.s[1]; E(f.sv[0] = f.sv[1]));
    OP("string=const char*", *f.s[0] = f.stds.c_str(); E(f.sv[0] = f.stds));
    OP("string=char_buffer", *f.s[0] = *f.cb; E(f.sv[0] = f.cbv));
    OP("string=utf16_buffer", *f.s[0] = *f.b16; E(f.sv[0] = f.sv[1]));
    OP("string=std::wstring", *f.s[0] = f.stdw; E(f.sv[0] = f.sv[1]));
    OP("string.set(string)", f.s[0]->set(*f.s[1]); E(f.sv[0] = f.sv[1]));
    OP("string.set(const char*,n,substitute_invalid)", f.s[0]->set(f.stds.c_str(), f.stds.size(), ST::substitute_invalid); E(f.sv[0] = f.stds));
    // ... the same with ill-formed text, where the repairing (substitute_invalid) paths make their own allocations
    OP("string.set(const char*,n,substitute_invalid) ill-formed", f.s[0]->set(f.bad8.data(), f.bad8.size(), ST::substitute_invalid); E(f.sv[0] = f.bad8fix));
    OP("string.set(char_buffer&&,substitute_invalid) ill-formed", ST::char_buffer tmp(f.bad8.data(), f.bad8.size()); f.s[0]->set(std::move(tmp), ST::substitute_invalid); E(f.sv[0] = f.bad8fix));
    OP("string.set(const char_buffer&,substitute_invalid) ill-formed", ST::char_buffer tmp(f.bad8.data(), f.bad8.size()); f.s[0]->set(tmp, ST::substitute_invalid); E(f.sv[0] = f.bad8fix));
    OP("string.set(std::string,substitute_invalid) ill-formed", f.s[0]->set(f.bad8, ST::substitute_invalid); E(f.sv[0] = f.bad8fix));
    OP("string(const char*,n,substitute_invalid) ill-formed", ST::string x(f.bad8.data(), f.bad8.size(), ST::substitute_invalid); (void)x);
    OP("string(char_buffer&&,substitute_invalid) ill-formed", ST::char_buffer tmp(f.bad8.data(), f.bad8.size()); ST::string x(std::move(tmp), ST::substitute_invalid); (void)x);
    OP("string.set(const char16_t*,n,substitute_invalid) ill-formed", f.s[0]->set(f.bad16.data(), f.bad16.size(), ST::substitute_invalid); E(f.sv[0] = f.bad16fix));
    OP("string.set(const char32_t*,n,substitute_invalid) ill-formed", f.s[0]->set(f.bad32.data(), f.bad32.size(), ST::substitute_invalid); E(f.sv[0] = f.bad32fix));
    OP("string+=string repaired from ill-formed UTF-16", ST::string x = ST::string::from_utf16(f.bad16.data(), f.bad16.size(), ST::substitute_invalid); *f.s[0] += x; E(f.sv[0] += f.bad16fix));
    OP("from_utf8/16/32 ill-formed, substitute_invalid", ST::string a = ST::string::from_utf8(f.bad8.data(), f.bad8.size(), ST::substitute_invalid);
       ST::string b = ST::string::from_utf16(f.bad16.data(), f.bad16.size(), ST::substitute_invalid); ST::string c = ST::string::from_utf32(f.bad32.data(), f.bad32.size(), ST::substitute_invalid); (void)a; (void)b; (void)c);
    OP("utf8_to_utf16/32/latin_1 ill-formed, substitute_invalid", ST::utf16_buffer a = ST::utf8_to_utf16(f.bad8.data(), f.bad8.size(), ST::substitute_invalid);
       ST::utf32_buffer b = ST::utf8_to_utf32(f.bad8.data(), f.bad8.size(), ST::substitute_invalid); ST::char_buffer c = ST::utf8_to_latin_1(f.bad8.data(), f.bad8.size(), ST::substitute_invalid); (void)a; (void)b; (void)c);
    OP("utf16/32_to_utf8 ill-formed, substitute_invalid", ST::char_buffer a = ST::utf16_to_utf8(f.bad16.data(), f.bad16.size(), ST::substitute_invalid);
       ST::char_buffer b = ST::utf32_to_utf8(f.bad32.data(), f.bad32.size(), ST::substitute_invalid); (void)a; (void)b);
    OP("string.set_validated(const char_buffer&)", f.s[0]->set_validated(*f.cb); E(f.sv[0] = f.cbv));
    OP("string.set_validated(char_buffer&&)", ST::char_buffer tmp(*f.cb); f.s[0]->set_validated(std::move(tmp)); E(f.sv[0] = f.cbv));
    OP("string::from_validated(const char_buffer&)", ST::string x = ST::string::from_validated(*f.cb); (void)x);
    OP("string.set_validated(char8_t*,n)", f.s[0]->set_validated(reinterpret_cast<const char8_t *>(f.stds.data()), f.stds.size()); E(f.sv[0] = f.stds));
    OP("string.set_validated", f.s[0]->set_validated(f.stds.c_str(), f.stds.size()); E(f.sv[0] = f.stds));
    OP("string+string", ST::string x = *f.s[0] + *f.s[1]; (void)x);
    OP("string+const char*", ST::string x = *f.s[0] + f.stds.c_str(); (void)x);
    OP("string+const wchar_t*", ST::string x = *f.s[0] + f.stdw.c_str(); (void)x);
    OP("string+char32_t", ST::string x = *f.s[1] + U'€'; (void)x);
    OP("string+=string", *f.s[0] += *f.s[1]; E(f.sv[0] += f.sv[1]));
    OP("string+=const char*", *f.s[0] += f.stds.c_str(); E(f.sv[0] += f.stds));
    OP("string+=const char16_t*", *f.s[0] += f.b16v.c_str(); E(f.sv[0] += f.sv[1]));
    OP("string+=char", *f.s[1] += 'c'; E(f.sv[1] += 'c'));
    OP("string+=self", *f.s[1] += *f.s[1]; E(f.sv[1] += f.sv[1]));
    OP("substr", ST::string x = f.s[1]->substr(1); (void)x);
    OP("substr(whole)", ST::string x = f.s[1]->substr(0); (void)x);
    OP("left/right", ST::string x = f.s[1]->left(f.sv[1].size() - 1); ST::string y = f.s[1]->right(f.sv[1].size() - 1); (void)x; (void)y);
    OP("trim", ST::string x = f.s[2]->trim("a, "); (void)x);
    OP("before_first/after_last", ST::string x = f.s[2]->before_first(','); ST::string y = f.s[2]->after_last(','); (void)x; (void)y);
    OP("replace", ST::string x = f.s[2]->replace(",", " <and> "); (void)x);
    OP("replace(string,string)", ST::string x = f.s[2]->replace(ST::string(","), *f.s[1]); (void)x);
    OP("split(char)", auto v = f.s[2]->split(','); (void)v);
    OP("split(const char*)", auto v = f.s[2]->split(", "); (void)v);
    OP("split(string)", auto v = f.s[2]->split(ST::string(",")); (void)v);
    OP("tokenize", auto v = f.s[2]->tokenize(" ,"); (void)v);
    OP("fill", ST::string x = ST::string::fill(60, 'f'); (void)x);
    OP("to_upper/to_lower", ST::string x = f.s[1]->to_upper(); ST::string y = f.s[1]->to_lower(); (void)x; (void)y);
    OP("to_utf8", ST::char_buffer x = f.s[1]->to_utf8(); (void)x);
    OP("to_utf16", auto x = f.s[1]->to_utf16(); (void)x);
    OP("to_utf32", auto x = f.s[1]->to_utf32(); (void)x);
    OP("to_wchar", auto x = f.s[1]->to_wchar(); (void)x);
    OP("to_latin_1", auto x = f.s[1]->to_latin_1(); (void)x);
    OP("to_std_string", auto x = f.s[1]->to_std_string(); (void)x);
    OP("to_std_u16string", auto x = f.s[1]->to_std_u16string(); (void)x);
    OP("to_std_wstring", auto x = f.s[1]->to_std_wstring(); (void)x);
    OP("to_buffer(utf32)", f.s[1]->to_buffer(*f.b32));
    OP("to_buffer(char)", f.s[2]->to_buffer(*f.cb); E(f.cbv = f.sv[2]));
    OP("from_utf8", ST::string x = ST::string::from_utf8(f.stds.c_str(), f.stds.size()); (void)x);
    OP("from_utf16", ST::string x = ST::string::from_utf16(*f.b16); (void)x);
    OP("from_utf32", ST::string x = ST::string::from_utf32(*f.b32); (void)x);
    OP("from_wchar", ST::string x = ST::string::from_wchar(f.stdw.c_str()); (void)x);
    OP("from_latin_1", ST::string x = ST::string::from_latin_1(*f.cb); (void)x);
    OP("from_std_string", ST::string x = ST::string::from_std_string(f.stds); (void)x);
    OP("from_validated(buffer)", ST::string x = ST::string::from_validated(*f.cb); (void)x);
    OP("from_int/from_double", ST::string x = ST::string::from_int(-1234567890123456789LL, 2); ST::string y = ST::string::from_double(1e100, 'f'); (void)x; (void)y);
    // --- free converters
    OP("utf8_to_utf16", auto x = ST::utf8_to_utf16(*f.cb); (void)x);
    OP("utf8_to_utf32", auto x = ST::utf8_to_utf32(*f.cb); (void)x);
    OP("utf8_to_wchar", auto x = ST::utf8_to_wchar(*f.cb); (void)x);
    OP("utf8_to_latin_1", auto x = ST::utf8_to_latin_1(*f.cb); (void)x);
    OP("utf16_to_utf8", auto x = ST::utf16_to_utf8(*f.b16); (void)x);
    OP("utf16_to_utf32", auto x = ST::utf16_to_utf32(*f.b16); (void)x);
    OP("utf16_to_latin_1", auto x = ST::utf16_to_latin_1(*f.b16); (void)x);
    OP("utf32_to_utf8", auto x = ST::utf32_to_utf8(*f.b32); (void)x);
    OP("utf32_to_utf16", auto x = ST::utf32_to_utf16(*f.b32); (void)x);
    OP("utf32_to_latin_1", auto x = ST::utf32_to_latin_1(*f.b32); (void)x);
    OP("wchar_to_utf8", auto x = ST::wchar_to_utf8(*f.bw); (void)x);
    OP("latin_1_to_utf8/16/32", auto x = ST::latin_1_to_utf8(*f.cb); auto y = ST::latin_1_to_utf16(*f.cb); auto z = ST::latin_1_to_utf32(*f.cb); (void)x; (void)y; (void)z);
    // --- codecs
    OP("hex_encode/decode", ST::string h = ST::hex_encode(*f.cb); ST::char_buffer d = ST::hex_decode(h); (void)d);
    OP("base64_encode/decode", ST::string h = ST::base64_encode(*f.cb); ST::char_buffer d = ST::base64_decode(h); (void)d);
    // --- formatting
    OP("format(strings,int)", ST::string x = ST::format("{} / {>40} / {x} / {}", *f.s[1], *f.s[2], 123456, *f.s[1]); (void)x);
    OP("format(long padding)", ST::string x = ST::format("{_*600}|{}", 5, *f.s[1]); (void)x);
    OP("format(wide string)", ST::string x = ST::format("{}{}", f.stdw, f.b16v.c_str()); (void)x);
    OP("format(double, big)", ST::string x = ST::format("{f} {.80e}", 1e200, 1.5); (void)x);
    OP("format_latin_1", ST::string x = ST::format_latin_1("{} {}", *f.s[1], 7); (void)x);
    // --- string_stream
    OP("stream.append (growth)", f.stream_prefix_ok = true; f.ss->append(f.sv[1].data(), f.sv[1].size()); f.ss->append_char('x', 300));
    OP("stream.append (several doublings)", f.stream_prefix_ok = true; S big; E(big.assign(5000, 'b')); f.ss->append(big.data(), big.size()));
    OP("stream<<string/int/double", f.stream_prefix_ok = true; *f.ss << *f.s[1] << 123456789 << 1e300 << *f.s[2]; f.ss->append_char('-', 400));
    OP("stream<<wstring", f.stream_prefix_ok = true; *f.ss << f.stdw << f.b16v; f.ss->append_char('-', 400));
    OP("stream emptied then regrown", f.stream_prefix_ok = true; f.ss->truncate(); E(f.ssv.clear()); S big; E(big.assign(3000, 'r')); f.ss->append(big.data(), big.size()));
    OP("stream erased then regrown", f.stream_prefix_ok = true; f.ss->erase(f.ss->size()); E(f.ssv.clear()); f.ss->append_char('e', 2500));
    OP("stream.to_string", ST::string x = f.ss->to_string(); ST::string y = f.ss->to_string(false); (void)x; (void)y);
    OP("stream move then append", f.stream_moved = true; ST::string_stream other(std::move(*f.ss)); other.append_char('y', 1000); f.ss->append_char('z', 700));
    // --- iostream
    IOP("ostream<<string", std::ostringstream os; os << *f.s[1] << *f.s[2]; if (!os) throw std::bad_alloc());
    IOP("wostream<<string", std::wostringstream os; os << *f.s[1]; if (!os) throw std::bad_alloc());
    IOP("istream>>string", std::istringstream is(f.sv[1] + " second"); is >> *f.s[0]; if (!is) throw std::bad_alloc(); E(f.sv[0] = f.sv[1]));
    IOP("writef(ostream)", std::ostringstream os; ST::writef(os, "{} {>300} {}", *f.s[1], 5, *f.s[2]); if (!os) throw std::bad_alloc());
#undef OP
#undef IOP
    return t;
}

static void body()
{
    vrt::require("faults.injected", 500);
    vrt::require("faults.bad_alloc_reached_caller", 500);
    vrt::require("ops.covered", 119);
    static const std::vector<Op> ops = table();
    const size_t nvar = vrt::tier_count(40, 160);      // random fillings per (operation, storage-mode combination)
    vrt::note(sfmt("fault enumeration: %zu allocating operations x 4 storage-mode combinations (short/long target x short/long argument) x %zu random fillings x every allocation index k = 1..N of the call", ops.size(), nvar));
    vrt::phase("fault_enumeration", ops.size() * 4 * nvar, [&](uint64_t idx, Rng &r) {
        const Op &op = ops[idx % ops.size()];
        const unsigned mode = static_cast<unsigned>((idx / ops.size()) % 4);
        const bool lt = mode & 1, la = mode & 2;
        g_op = op.name;
        g_variant = sfmt("target=%s argument=%s filling #%llu", lt ? "long" : "short", la ? "long" : "short", static_cast<unsigned long long>(idx / (ops.size() * 4)));
        const uint64_t fixseed = r.next();
        // run 0: count the allocations of the call
        uint64_t n = 0;
        {
            const size_t base = va::reg().live_lib;
            {
            Rng fr(fixseed);
            Fix f;
            {
                va::LibScope ls;
                f.setup(fr, lt, la);
            }
            g_k = 0;
            vrt::cur_rewind();
            vrt::cur_printf("op=%s %s (counting run)\n", g_op.c_str(), g_variant.c_str());
            try {
                va::LibScope ls;
                op.run(f);
                n = va::reg().lib_allocs;
            } catch (const std::exception &e) {
                fail("failed-without-a-fault", e.what());
            }
            f.verify_after_fault();        // same invariants hold after a successful call (values were updated by the op body)
            f.teardown();
            }
            if (va::reg().live_lib != base) { fail("leak-without-a-fault", sfmt("%zu blocks", va::reg().live_lib - base)); va::reg().live_lib = base; }
        }
        vrt::count(sfmt("allocs_per_call.%s", n == 0 ? "0" : n == 1 ? "1" : n <= 3 ? "2-3" : "4+"));
        if (idx < ops.size()) vrt::count("ops.covered");
        for (uint64_t k = 1; k <= n; ++k) {
            const size_t base = va::reg().live_lib;
            {
            Rng fr(fixseed);
            Fix f;
            {
                va::LibScope ls;
                f.setup(fr, lt, la);
            }
            // remember the pre-fault values: the op bodies update the expectations only when they complete
            S sv0 = f.sv[0], sv1 = f.sv[1], sv2 = f.sv[2], cbv = f.cbv, ssv = f.ssv, cbcv = f.cbcv, scv = f.scv;
            std::u32string b32cv = f.b32cv;
            std::u16string b16v = f.b16v; std::u32string b32v = f.b32v; std::wstring bwv = f.bwv;
            g_k = static_cast<int64_t>(k);
            vrt::cur_rewind();
            vrt::cur_printf("op=%s %s failing allocation %llu of %llu\n", g_op.c_str(), g_variant.c_str(), static_cast<unsigned long long>(k), static_cast<unsigned long long>(n));
            bool got_bad_alloc = false, completed = false;
            va::fail_nth(static_cast<int64_t>(k));
            try {
                va::LibScope ls;
                op.run(f);
                completed = true;
            } catch (const std::bad_alloc &) {
                got_bad_alloc = true;
            } catch (const std::exception &e) {
                va::fail_off();
                fail("wrong-exception", sfmt("%s: %s", vrt::demangle(typeid(e).name()).c_str(), e.what()));
            }
            const bool fired = va::reg().fired;
            va::fail_off();
            vrt::evals();
            if (fired) vrt::count("faults.injected");
            if (fired && got_bad_alloc) vrt::count("faults.bad_alloc_reached_caller");
            if (fired && completed) {
                if (op.iostream_protocol) vrt::count("faults.reported_through_stream_state");
                else fail("bad_alloc-swallowed", "the call returned normally although one of its allocations failed");
            }
            if (!completed) {
                // restore the pre-fault expectations (the op body may have updated some before the throwing statement)
                f.sv[0] = sv0; f.sv[1] = sv1; f.sv[2] = sv2; f.cbv = cbv; f.ssv = ssv; f.b16v = b16v; f.b32v = b32v; f.bwv = bwv;
                f.cbcv = cbcv; f.scv = scv; f.b32cv = b32cv;
            }
            f.verify_after_fault();
            f.teardown();
            }
            if (va::reg().live_lib != base) {
                fail("leak", sfmt("%zu library allocations survive the destruction of every object involved", va::reg().live_lib - base));
                va::reg().live_lib = base;
            }
            va::check_pairing("oom");
        }
        vrt::distinct(vrt::fnv_u64(fixseed, vrt::fnv_str(op.name, mode + 151)));
        if (vrt::want_sample(op.name, 1) && n > 1) vrt::sample(op.name, sfmt("%s, %s: %llu allocations, each failed once", op.name, g_variant.c_str(), static_cast<unsigned long long>(n)), 1);
    });
}

VRT_MAIN(body)
