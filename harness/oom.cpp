// C19 - allocation failure propagates cleanly.  For every operation of a table
// of allocating operations the number N of allocations it performs is counted,
// then for k = 1..N the operation is re-run on fresh fixtures with exactly the
// k-th allocation made to throw (replaced operator new, countdown failpoint).
// Monitors: std::bad_alloc reaches the caller; every fixture object is still
// valid (readable, storage alive, previous value or empty), can be assigned to
// and destroyed; after teardown no library allocation survives; ASan watches
// for double / bad frees and use after free.
// Scale phase: the same table (plus operations that need such objects) on
// fixtures of 64 KiB .. 1 MiB in states only reached at scale - buffers and
// strings cleared and re-allocated, copy-assigned a value of exactly their own
// size, built by hundreds of appends, a stream grown to >= 64 KiB, cut back to
// <= 256 bytes and appended to beyond its capacity; same enumeration, same monitors.
// same_storage phase: the table on targets (four buffer types, strings) that were
// copy-constructed / moved from a copy into storage that was not zero before
// (0x5A, 0xFF, random bytes, the remains of a destroyed object of the same type
// whose heap block the successor gets), mostly in heap mode, half of the objects
// 8 bytes into their block (8 mod 16).  soak phase: 70000 consecutive calls per
// case on the same long-lived objects, two in three with an injected failure,
// exact model after every call.
#include "vrt.h"
#include "vrt_alloc.h"
#include "vrt_st.h"
#include "ref_unicode.h"
#include "gen_text.h"
#include "gen_scale.h"
#include <sstream>

using vrt::Rng;
using vrt::sfmt;
namespace va = vrt::alloc;
typedef std::string S;

static std::string g_op;
static int64_t g_k = 0;
static std::string g_variant;
static size_t g_max_request = 0;      // the biggest single request of the last counting run

static void fail(const char *what, const std::string &detail)
{
    va::HarnessScope hs;
    vrt::violation(sfmt("C19:%s:%s", g_op.c_str(), what), sfmt("failing allocation #%lld of the call, fixtures %s: %s", static_cast<long long>(g_k), g_variant.c_str(), detail.c_str()));
}

// ---- where the fixture objects live (same_storage / soak phases) -----------------------------------------------------
// What the storage of an object held before the object was constructed in it, and whether the object starts at the beginning
// of its block (16-byte aligned) or 8 bytes in (8 mod 16: a member behind an int, the second of a pair).  Off in the phases
// that existed before: there the blocks are what malloc returns (under ASan: filled with 0xbe).
enum { F_ASIS, F_5A, F_FF, F_RANDOM_NONZERO, F_RANDOM, F_SHORT_PREDECESSOR, F_LONG_PREDECESSOR, F_ZERO, N_FILL };
static const char *const fill_names[] = {"as malloc returned it", "0x5A", "0xFF", "random non-zero bytes", "random bytes", "an object with a short value lived and died there",
                                         "an object with a long value of the same size lived and died there (its heap block is offered to the successor)", "zero"};
struct Place {
    bool on = false;
    unsigned fill = F_ASIS;
    unsigned at8mask = 0;         // bit (n % 16): the n-th object made for this fixture starts 8 bytes into its block
    unsigned made = 0;
    size_t pred_units = 40;       // F_LONG_PREDECESSOR: how long the predecessor's value is
    const void *pred_data = nullptr;   // ... and where its heap block was
    Rng rng{1};
    // plain tallies (the fixtures are built inside a library scope: no counter map there); flushed by the phase
    uint64_t n_at8 = 0, n_objects = 0, n_pred_block_reused = 0, n_pred_blocks = 0;
};
static Place g_place;

template <typename T> struct is_st_buffer { enum { value = 0 }; };
template <typename C> struct is_st_buffer<ST::buffer<C>> { enum { value = 1 }; typedef C unit; };

template <typename T>
struct Obj {           // an object in a heap block of exactly sizeof(T) bytes (or, placed: sizeof(T) + 8 with the object at + 8)
    T *p = nullptr;
    void *base = nullptr;
    void *room()
    {
        Place &pl = g_place;
        size_t shift = 0;
        if (pl.on && alignof(T) <= 8 && ((pl.at8mask >> (pl.made % 16)) & 1)) shift = 8;
        base = malloc(sizeof(T) + shift);
        if (!base) { fprintf(stderr, "oom harness: out of memory\n"); _exit(98); }
        unsigned char *m = static_cast<unsigned char *>(base) + shift;
        if (pl.on) {
            ++pl.made;
            ++pl.n_objects;
            if (shift) ++pl.n_at8;
            switch (pl.fill) {
            case F_ASIS: break;
            case F_FF: memset(m, 0xFF, sizeof(T)); break;
            case F_RANDOM_NONZERO: for (size_t i = 0; i < sizeof(T); ++i) m[i] = static_cast<unsigned char>(1 + pl.rng.below(255)); break;
            case F_RANDOM: for (size_t i = 0; i < sizeof(T); ++i) m[i] = static_cast<unsigned char>(pl.rng.below(256)); break;
            case F_ZERO: memset(m, 0, sizeof(T)); break;
            default: memset(m, 0x5A, sizeof(T)); break;
            }
            pl.pred_data = nullptr;
            if (pl.fill == F_SHORT_PREDECESSOR || pl.fill == F_LONG_PREDECESSOR) predecessor(m, pl.fill == F_LONG_PREDECESSOR);
        }
#ifdef VRT_HAVE_ASAN
        if (shift) vrt::__asan_poison_memory_region(base, shift);
#endif
        return m;
    }
    // an earlier object of the same type that lived at this address and is gone: its inline bytes stay behind, and (long
    // value) its heap block is parked for the next request of that size - the successor's
    static void predecessor(void *at, bool long_value)
    {
        Place &pl = g_place;
        if constexpr (std::is_same<T, ST::string>::value) {
            const size_t n = long_value ? std::max<size_t>(pl.pred_units, 16) : 15;
            ST::string *q = new (at) ST::string(ST::string::fill(n, 'P'));
            if (long_value) { pl.pred_data = q->c_str(); vrt::placement_force_parks() = 1; }
            q->~string();
        } else if constexpr (is_st_buffer<T>::value) {
            typedef typename is_st_buffer<T>::unit C;
            const size_t limit = (sizeof(T) - 16) / sizeof(C);
            const size_t n = long_value ? std::max<size_t>(pl.pred_units, limit) : limit - 1;
            T *q = new (at) T(n, C('P'));
            if (long_value) { pl.pred_data = q->data(); vrt::placement_force_parks() = 1; }
            q->~T();
        } else if constexpr (std::is_same<T, ST::string_stream>::value) {
            ST::string_stream *q = new (at) ST::string_stream();
            q->append_char('P', long_value ? ST_STACK_STRING_SIZE + 300 : ST_STACK_STRING_SIZE);
            q->~string_stream();
        }
        vrt::placement_force_parks() = 0;
    }
    template <typename... A> void make(A &&...a) { void *m = room(); p = new (m) T(std::forward<A>(a)...); }
    void kill()
    {
        if (!p) return;
        p->~T();
#ifdef VRT_HAVE_ASAN
        if (base != static_cast<void *>(p)) vrt::__asan_unpoison_memory_region(base, 8);
#endif
        free(base);
        p = nullptr;
        base = nullptr;
    }
    bool inside(const void *q) const { const char *c = static_cast<const char *>(q), *lo = reinterpret_cast<const char *>(p); return c >= lo && c < lo + sizeof(T); }
    T &operator*() { return *p; }
    T *operator->() { return p; }
};

// How a target object of the same_storage phase came to hold its value.  Everything except OR_DIRECT goes through the copy
// constructor from a long source, which leaves the in-object array of the copy as the storage was before.
enum { OR_DIRECT, OR_COPY, OR_COPY_THEN_MOVED, OR_MOVE_ASSIGNED_FROM_COPY, OR_COPY_OF_COPY, N_ORIGIN };
static const char origin_letters[] = "dcmaC";
static ST::string obj_of(const S &v, ST::string *) { return ST::string::from_validated(v.data(), v.size()); }
template <typename C> static ST::buffer<C> obj_of(const std::basic_string<C> &v, ST::buffer<C> *) { return ST::buffer<C>(v.data(), v.size()); }
static const void *data_of(const ST::string &s) { return s.c_str(); }
template <typename C> static const void *data_of(const ST::buffer<C> &b) { return b.data(); }

template <typename T, typename V>
static void build(Obj<T> &o, const V &v, unsigned origin)
{
    Place &pl = g_place;
    pl.pred_units = v.size();
    const T src(obj_of(v, static_cast<T *>(nullptr)));
    switch (origin) {
    case OR_COPY:
        o.make(src);
        if (pl.pred_data) { ++pl.n_pred_blocks; if (data_of(*o) == pl.pred_data) ++pl.n_pred_block_reused; }
        break;
    case OR_COPY_THEN_MOVED: { Obj<T> tmp; tmp.make(src); o.make(std::move(*tmp)); tmp.kill(); break; }
    case OR_MOVE_ASSIGNED_FROM_COPY: { Obj<T> tmp; tmp.make(src); o.make(); *o = std::move(*tmp); tmp.kill(); break; }
    case OR_COPY_OF_COPY: { Obj<T> tmp; tmp.make(src); o.make(*tmp); tmp.kill(); break; }
    default: o.make(obj_of(v, static_cast<T *>(nullptr))); break;
    }
    pl.pred_data = nullptr;
}


// ---- scale fixtures --------------------------------------------------------------------------------------------------
// Harness-side content of one scale case.  It is generated once per case; the library objects are rebuilt from it (and put
// through the same history) for the counting run and for every fault index.
struct Big {
    S sv[3];
    std::u16string b16v; std::u32string b32v; std::wstring bwv;
    S bad8, bad8fix; std::u16string bad16; S bad16fix; std::u32string bad32; S bad32fix;
    S stream_history;       // what the stream held when it was at its largest
    size_t keep = 0;        // ... and how many bytes of that are left when the operation starts
    unsigned cut = 0;       // 0: nothing removed, 1: truncate(), 2: truncate(keep), 3: erase(size - keep)
    size_t chunk = 0;       // the history was appended in pieces of this size (0: one append)
    unsigned hist[8] = {};  // how each target object got its value (see make_with_history)
    unsigned shape = 0;
    size_t L = 0;
};
enum { H_DIRECT, H_CLEARED_REALLOCATED, H_SAME_SIZE_COPY_ASSIGNED, H_MOVE_ASSIGNED, H_SAME_SIZE_THEN_NEIGHBOUR_CLEARED, H_MANY_APPENDS, N_HIST };

template <typename T>
static void make_with_history(Obj<ST::buffer<T>> &o, const std::basic_string<T> &v, unsigned h)
{
    const size_t n = v.size();
    switch (h) {
    case H_CLEARED_REALLOCATED:         // a big buffer cleared and allocated again
        o.make(n / 2 + 17, T('p'));
        o->clear();
        o->allocate(n);
        std::char_traits<T>::copy(o->data(), v.data(), n);
        break;
    case H_SAME_SIZE_COPY_ASSIGNED: {   // copy-assigned a value of exactly the size it already holds
        o.make(n, T('p'));
        ST::buffer<T> src(v.data(), n);
        *o = src;
        break;
    }
    case H_MOVE_ASSIGNED:
        o.make(n + 5, T('p'));
        *o = ST::buffer<T>(v.data(), n);
        break;
    case H_SAME_SIZE_THEN_NEIGHBOUR_CLEARED: {   // ... and afterwards other big objects of that size come and go
        o.make(n, T('p'));
        ST::buffer<T> src(v.data(), n), other(n, T('q')), third(n + 1, T('r'));
        *o = src;
        other.clear();
        third = src;
        break;
    }
    default:
        o.make(v.data(), n);
        break;
    }
}
static void make_with_history(Obj<ST::string> &o, const S &v, unsigned h)
{
    const size_t n = v.size();
    switch (h) {
    case H_CLEARED_REALLOCATED:
        o.make(ST::string::fill(n / 2 + 17, 'p'));
        o->clear();
        o->set_validated(v.data(), n);
        break;
    case H_SAME_SIZE_COPY_ASSIGNED: {
        o.make(ST::string::fill(n, 'p'));
        ST::string src = ST::string::from_validated(v.data(), n);
        *o = src;
        break;
    }
    case H_MOVE_ASSIGNED:
        o.make(ST::string::fill(n + 5, 'p'));
        *o = ST::string::from_validated(v.data(), n);
        break;
    case H_SAME_SIZE_THEN_NEIGHBOUR_CLEARED: {
        o.make(ST::string::fill(n, 'p'));
        ST::string src = ST::string::from_validated(v.data(), n), other = ST::string::fill(n, 'q'), third = ST::string::fill(n + 1, 'r');
        *o = src;
        other.clear();
        third = src;
        break;
    }
    case H_MANY_APPENDS:                // hundreds of consecutive appends on one object
        if (n >= 600 && n <= 160 * 1024) {
            o.make();
            const size_t step = n / 300;
            for (size_t at = 0; at < n; at += step) *o += ST::string::from_validated(v.data() + at, std::min(step, n - at));
            break;
        }
        /* fall through */
    default:
        o.make(ST::string::from_validated(v.data(), n));
        break;
    }
}

struct Fix {
    Obj<ST::string> s[3];
    S sv[3];
    Obj<ST::char_buffer> cb; S cbv;
    Obj<ST::utf16_buffer> b16; std::u16string b16v;
    Obj<ST::utf32_buffer> b32; std::u32string b32v;
    Obj<ST::wchar_buffer> bw; std::wstring bwv;
    Obj<ST::string_stream> ss; S ssv;
    // targets that got their value by copy construction (their in-object array was never written when the value is long)
    Obj<ST::char_buffer> cbc; S cbcv;
    Obj<ST::string> sc; S scv;
    Obj<ST::utf32_buffer> b32c; std::u32string b32cv;
    std::string stds;
    std::wstring stdw;
    // ill-formed text (what makes the repairing / substituting paths allocate) and its expected repair
    S bad8, bad8fix;
    std::u16string bad16; S bad16fix;
    std::u32string bad32; S bad32fix;
    bool stream_prefix_ok = false;   // the operation consists of several appends: after a fault any extension of the previous content is fine
    bool stream_moved = false;       // the operation moves the stream away: only structural validity is required of it
    Rng *r;
    // scale fixtures only: the free room of the stream's current block (from the allocation registry) and its capacity
    size_t stream_room = 0, stream_cap = 0;
    size_t slack = 100000;           // sanity bound on a reported size before it is used to read the object (more than any operation of the table adds)
    S blob;                          // harness-side bytes, longer than twice the stream's capacity

    // origin: how each of the seven target objects gets its value (same_storage phase; nullptr: as in the other phases)
    void setup(Rng &rng, bool long_target, bool long_arg, const unsigned *origin = nullptr)
    {
        r = &rng;
        auto text = [&](size_t n) { S t; while (t.size() < n) { if (rng.chance(1, 5)) ref::enc_utf8(t, 0xE9); else t += static_cast<char>('a' + rng.below(26)); } return t; };
        sv[0] = text(long_target ? 40 + rng.below(30) : rng.below(15));
        sv[1] = text(long_arg ? 30 + rng.below(300) : 1 + rng.below(14));
        sv[2] = long_arg ? S("a, b,c ,, ") + text(30) + ", tail of a longer piece" : S("a,b c");
        cbv = sv[1];
        ref::Decoded d = ref::decode_utf8(sv[1]);
        ref::to_utf16(d, false, b16v);
        ref::to_utf32(d, false, b32v);
        bwv.assign(b32v.begin(), b32v.end());
        if (origin) {
            for (int i = 0; i < 3; ++i) build(s[i], sv[i], origin[i]);
            build(cb, cbv, origin[3]);
            build(b16, b16v, origin[4]);
            build(b32, b32v, origin[5]);
            build(bw, bwv, origin[6]);
        } else {
            for (int i = 0; i < 3; ++i) s[i].make(ST::string::from_validated(sv[i].data(), sv[i].size()));
            cb.make(cbv.data(), cbv.size());
            b16.make(b16v.data(), b16v.size());
            b32.make(b32v.data(), b32v.size());
            bw.make(bwv.data(), bwv.size());
        }
        cbc.make(*cb); cbcv = cbv;
        sc.make(*s[1]); scv = sv[1];
        b32c.make(*b32); b32cv = b32v;
        ss.make();
        ssv = text(long_target ? 250 + rng.below(600) : rng.below(200));
        ss->append(ssv.data(), ssv.size());
        stds = sv[1];
        stdw = bwv;
        {
            static const char *const junk[] = {"\x80", "\xC3", "\xE2\x82", "\xF0\x9F\x98", "\xFF", "\xC0\x80", "\xF4\x90\x80\x80"};
            const size_t pieces = long_arg ? 6 + rng.below(20) : 1 + rng.below(2);
            bad8.clear(); bad16.clear(); bad32.clear();
            for (size_t i = 0; i < pieces; ++i) {
                bad8 += text(rng.below(long_arg ? 9 : 3));
                bad8 += junk[rng.below(sizeof(junk) / sizeof(junk[0]))];
                for (size_t k = rng.below(4); k-- > 0;) { bad16 += static_cast<char16_t>('a' + rng.below(26)); bad32 += static_cast<char32_t>(0x100 + rng.below(0x400)); }
                bad16 += static_cast<char16_t>(rng.chance(1, 2) ? 0xD800 + rng.below(0x400) : 0xDC00 + rng.below(0x400));
                bad16 += u'-';
                bad32 += static_cast<char32_t>(0x110000 + rng.below(100));
            }
            bad8fix = ref::cleanup_utf8(bad8);
            bad16fix.clear(); ref::to_utf8(ref::decode_utf16(bad16.data(), bad16.size()), false, bad16fix);
            bad32fix.clear(); ref::to_utf8(ref::decode_utf32(bad32.data(), bad32.size()), false, bad32fix);
        }
    }
    // scale: the same fixtures holding 64 KiB .. 1 MiB, each brought to its value through a history (see Big)
    void setup_scale(const Big &c)
    {
        r = nullptr;
        slack = static_cast<size_t>(16) << 20;
        for (int i = 0; i < 3; ++i) sv[i] = c.sv[i];
        make_with_history(s[0], sv[0], c.hist[0]);
        make_with_history(s[1], sv[1], c.hist[1]);
        s[2].make(ST::string::from_validated(sv[2].data(), sv[2].size()));
        cbv = sv[1]; b16v = c.b16v; b32v = c.b32v; bwv = c.bwv;
        make_with_history<char>(cb, cbv, c.hist[2]);
        make_with_history<char16_t>(b16, b16v, c.hist[3]);
        make_with_history<char32_t>(b32, b32v, c.hist[4]);
        make_with_history<wchar_t>(bw, bwv, c.hist[5]);
        cbc.make(*cb); cbcv = cbv;
        sc.make(*s[1]); scv = sv[1];
        b32c.make(*b32); b32cv = b32v;
        // the stream: grown (in one go or by many appends) to its largest size, then cut back
        ss.make();
        if (c.chunk == 0) ss->append(c.stream_history.data(), c.stream_history.size());
        else for (size_t at = 0; at < c.stream_history.size(); at += c.chunk) ss->append(c.stream_history.data() + at, std::min(c.chunk, c.stream_history.size() - at));
        switch (c.cut) {
        case 1: ss->truncate(); break;
        case 2: ss->truncate(c.keep); break;
        case 3: ss->erase(c.stream_history.size() - c.keep); break;
        default: break;
        }
        ssv = c.stream_history.substr(0, c.cut == 0 ? S::npos : c.keep);
        {
            va::HarnessScope hs;
            va::Block *blk = ss.inside(ss->raw_buffer()) ? nullptr : va::find(ss->raw_buffer());
            stream_cap = blk ? blk->size : static_cast<size_t>(ST_STACK_STRING_SIZE);
            stream_room = stream_cap >= ss->size() ? stream_cap - ss->size() : 0;
            blob.assign(2 * stream_cap + 3, 'B');
        }
        stds = sv[1];
        stdw = bwv;
        bad8 = c.bad8; bad8fix = c.bad8fix; bad16 = c.bad16; bad16fix = c.bad16fix; bad32 = c.bad32; bad32fix = c.bad32fix;
    }
    void teardown()
    {
        for (auto &x : s) x.kill();
        cb.kill(); b16.kill(); b32.kill(); bw.kill(); ss.kill(); cbc.kill(); sc.kill(); b32c.kill();
    }

    template <typename T>
    void check_buffer(const char *name, Obj<ST::buffer<T>> &o, const std::basic_string<T> &prev)
    {
        const ST::buffer<T> &b = *o.p;
        const size_t n = b.size(), limit = (sizeof(ST::buffer<T>) - 16) / sizeof(T);
        if (n > prev.size() + slack) { fail("object-corrupt", sfmt("%s reports size %zu", name, n)); o.p = nullptr; return; }
        if (n >= limit) {
            va::Block *blk = va::find(b.data());
            if (!blk) { fail("points-to-released-storage", sfmt("%s (size %zu) data() is not a live block", name, n)); o.p = nullptr; return; }
            if (blk->size != (n + 1) * sizeof(T)) fail("block-size", name);
        } else if (!o.inside(b.data())) { fail("points-outside-object", sfmt("%s (size %zu)", name, n)); o.p = nullptr; return; }
        std::basic_string<T> now(b.data(), n);
        if (!(now == prev || now.empty())) fail("neither-previous-value-nor-empty", sfmt("%s now %s", name, vrt::hex(now.data(), now.size(), sizeof(T), 30).c_str()));
        if (b.data()[n] != T()) fail("no-terminator", name);
    }
    void check_string(const char *name, Obj<ST::string> &o, const S &prev)
    {
        const ST::string &x = *o.p;
        const size_t n = x.size();
        if (n > prev.size() + slack) { fail("object-corrupt", sfmt("%s reports size %zu", name, n)); o.p = nullptr; return; }
        if (n >= 16) {
            if (!va::find(x.c_str())) { fail("points-to-released-storage", sfmt("%s (size %zu) data() is not a live block", name, n)); o.p = nullptr; return; }
        } else if (!o.inside(x.c_str())) { fail("points-outside-object", sfmt("%s (size %zu)", name, n)); o.p = nullptr; return; }
        S now(x.c_str(), n);
        if (!(now == prev || now.empty())) fail("neither-previous-value-nor-empty", sfmt("%s now %s was %s", name, vrt::hex(now.data(), now.size(), 1, 30).c_str(), vrt::hex(prev.data(), prev.size(), 1, 30).c_str()));
        if (x.c_str()[n] != 0) fail("no-terminator", name);
    }
    void check_stream()
    {
        const ST::string_stream &x = *ss.p;
        const size_t n = x.size();
        if (n > ssv.size() + slack) { fail("object-corrupt", sfmt("stream reports size %zu", n)); ss.p = nullptr; return; }
        const char *d = x.raw_buffer();
        if (!ss.inside(d)) {
            va::Block *blk = va::find(d);
            if (!blk) { fail("points-to-released-storage", "stream buffer is not a live block"); ss.p = nullptr; return; }
            if (blk->size < n) fail("stream-block-too-small", sfmt("size %zu in a block of %zu", n, blk->size));
        } else if (n > ST_STACK_STRING_SIZE) { fail("stream-overfull", ""); ss.p = nullptr; return; }
        S now(d, n);
        if (stream_moved) return;
        if (stream_prefix_ok ? !(now.empty() || (now.size() >= ssv.size() && now.compare(0, ssv.size(), ssv) == 0)) : !(now == ssv || now.empty()))
            fail("stream-neither-previous-nor-empty", sfmt("size %zu was %zu", n, ssv.size()));
    }
    // every fixture: still valid, previous value or empty; then assigned to, read, (destroyed in teardown)
    void check_all()
    {
        va::HarnessScope hs;
        for (int i = 0; i < 3; ++i) if (s[i].p) check_string(i == 0 ? "target string" : "argument string", s[i], sv[i]);
        if (cb.p) check_buffer<char>("char_buffer", cb, cbv);
        if (b16.p) check_buffer<char16_t>("utf16_buffer", b16, b16v);
        if (b32.p) check_buffer<char32_t>("utf32_buffer", b32, b32v);
        if (bw.p) check_buffer<wchar_t>("wchar_buffer", bw, bwv);
        if (ss.p) check_stream();
        if (cbc.p) check_buffer<char>("copy-constructed char_buffer", cbc, cbcv);
        if (b32c.p) check_buffer<char32_t>("copy-constructed utf32_buffer", b32c, b32cv);
        if (sc.p) check_string("copy-constructed string", sc, scv);
    }
    bool all_alive() const { return s[0].p && s[1].p && s[2].p && cb.p && b16.p && b32.p && bw.p && ss.p && cbc.p && b32c.p && sc.p; }
    void verify_after_fault()
    {
        va::HarnessScope hs;
        check_all();
        // can still be assigned to and read
        if (s[0].p) { *s[0] = ST::string("assigned after the fault, long enough for the heap"); if (s[0]->size() != 50) fail("unusable-after-fault", "target string"); }
        if (cb.p) { *cb = ST::char_buffer("xyz", 3); if (cb->size() != 3) fail("unusable-after-fault", "char_buffer"); }
        if (b16.p) { b16->allocate(40, u'q'); if (b16->size() != 40 || (*b16)[39] != u'q') fail("unusable-after-fault", "utf16_buffer"); }
        if (ss.p) { size_t before = ss->size(); ss->append("tail", 4); if (ss->size() != before + 4) fail("unusable-after-fault", "stream"); }
        vrt::evals();
    }
};

struct Op {
    const char *name;
    std::function<void(Fix &)> run;
    bool iostream_protocol;     // failed stream state is an accepted way to report the failure
    bool scale_only;            // needs the big fixtures of the scale phase (Fix::setup_scale)
};

static std::vector<Op> table()
{
    std::vector<Op> t;
#define OP(n, body) t.push_back(Op{n, [](Fix &f) { (void)f; body; }, false, false})
#define IOP(n, body) t.push_back(Op{n, [](Fix &f) { (void)f; body; }, true, false})
#define SOP(n, body) t.push_back(Op{n, [](Fix &f) { (void)f; body; }, false, true})
// bookkeeping of the expected values: not a library allocation, never faulted
#define E(stmt) do { va::HarnessScope hs__; stmt; } while (0)
    // --- buffers, four element types
    OP("char_buffer(ptr,len)", ST::char_buffer x(f.sv[1].data(), f.sv[1].size()); (void)x);
    OP("utf16_buffer(ptr,len)", ST::utf16_buffer x(f.b16v.data(), f.b16v.size()); (void)x);
    OP("utf32_buffer(ptr,len)", ST::utf32_buffer x(f.b32v.data(), f.b32v.size()); (void)x);
    OP("wchar_buffer(ptr,len)", ST::wchar_buffer x(f.bwv.data(), f.bwv.size()); (void)x);
    OP("char_buffer(count,fill)", ST::char_buffer x(f.sv[1].size(), 'x'); (void)x);
    OP("utf32_buffer(count,fill)", ST::utf32_buffer x(f.sv[1].size(), U'x'); (void)x);
    OP("char_buffer copy-ctor", ST::char_buffer x(*f.cb); (void)x);
    OP("utf16_buffer copy-ctor", ST::utf16_buffer x(*f.b16); (void)x);
    OP("wchar_buffer copy-ctor", ST::wchar_buffer x(*f.bw); (void)x);
    OP("char_buffer=char_buffer", ST::char_buffer src(f.sv[2].data(), f.sv[2].size()); *f.cb = src; E(f.cbv = f.sv[2]));
    OP("utf16_buffer=utf16_buffer (long source)", ST::utf16_buffer src(60, u'z'); *f.b16 = src; E(f.b16v.assign(60, u'z')));
    OP("utf32_buffer=utf32_buffer (long source)", ST::utf32_buffer src(60, U'z'); *f.b32 = src; E(f.b32v.assign(60, U'z')));
    OP("wchar_buffer=wchar_buffer (long source)", ST::wchar_buffer src(60, L'z'); *f.bw = src; E(f.bwv.assign(60, L'z')));
    OP("char_buffer.allocate(n)", f.cb->allocate(100); memset(f.cb->data(), 'k', 100); E(f.cbv.assign(100, 'k')));
    OP("utf16_buffer.allocate(n,fill)", f.b16->allocate(100, u'k'); E(f.b16v.assign(100, u'k')));
    OP("utf32_buffer.allocate(n,fill)", f.b32->allocate(100, U'k'); E(f.b32v.assign(100, U'k')));
    OP("wchar_buffer.allocate(n)", f.bw->allocate(100); for (size_t i = 0; i < 100; ++i) (*f.bw)[i] = 0; E(f.bwv.assign(100, L'\0')));
    OP("copy-constructed char_buffer=char_buffer (long source)", ST::char_buffer src(70, 'z'); *f.cbc = src; E(f.cbcv.assign(70, 'z')));
    OP("copy-constructed utf32_buffer=utf32_buffer (long source)", ST::utf32_buffer src(60, U'z'); *f.b32c = src; E(f.b32cv.assign(60, U'z')));
    OP("copy-constructed string=string", *f.sc = *f.s[2]; E(f.scv = f.sv[2]));
    OP("copy-constructed string.set(const char*)", f.sc->set(f.sv[2].c_str()); E(f.scv = f.sv[2]));
    OP("copy-constructed char_buffer.allocate(n)", f.cbc->allocate(100); memset(f.cbc->data(), 'k', 100); E(f.cbcv.assign(100, 'k')));
    OP("copy-constructed utf32_buffer.allocate(n,fill)", f.b32c->allocate(64, U'k'); E(f.b32cv.assign(64, U'k')));
    OP("copy-constructed string.set_validated(const char_buffer&)", f.sc->set_validated(*f.cb); E(f.scv = f.cbv));
    OP("utf16_buffer.allocate(n)", f.b16->allocate(90); for (size_t i = 0; i < 90; ++i) (*f.b16)[i] = u'k'; E(f.b16v.assign(90, u'k')));
    OP("utf32_buffer.allocate(n)", f.b32->allocate(90); for (size_t i = 0; i < 90; ++i) (*f.b32)[i] = U'k'; E(f.b32v.assign(90, U'k')));
    OP("char_buffer.allocate(exactly the inline limit)", f.cb->allocate(16, 'k'); E(f.cbv.assign(16, 'k')));
    OP("wchar_buffer.allocate(exactly the inline limit)", f.bw->allocate(12, L'k'); E(f.bwv.assign(12, L'k')));
    OP("utf32_to_wchar / wchar_to_utf32 (straight copies)", ST::wchar_buffer a = ST::utf32_to_wchar(*f.b32); ST::utf32_buffer b = ST::wchar_to_utf32(*f.bw); ST::wchar_buffer c = ST::utf32_to_wchar(f.b32v.data(), f.b32v.size()); (void)a; (void)b; (void)c);
    OP("utf16_to_wchar / wchar_to_utf16", ST::wchar_buffer a = ST::utf16_to_wchar(*f.b16); ST::utf16_buffer b = ST::wchar_to_utf16(*f.bw); (void)a; (void)b);
    OP("char_buffer.allocate(n,0) zero fill", f.cb->allocate(100, '\0'); E(f.cbv.assign(100, '\0')));
    OP("utf16_buffer.allocate(n,0) zero fill", f.b16->allocate(64, u'\0'); E(f.b16v.assign(64, u'\0')));
    OP("utf32_buffer.allocate(n,0) zero fill", f.b32->allocate(64, U'\0'); E(f.b32v.assign(64, U'\0')));
    OP("wchar_buffer.allocate(n,0) zero fill", f.bw->allocate(64, L'\0'); E(f.bwv.assign(64, L'\0')));
    OP("char_buffer(count,0) zero fill", ST::char_buffer x(f.sv[1].size() + 20, '\0'); (void)x);
    // --- operations that are not supposed to allocate at all (noexcept searches, comparisons, caller-buffer decoders): if one
    // of them starts to, the failing allocation must still not terminate the process or go unnoticed
    OP("find/contains/starts_with/ends_with (long needles)", volatile long sink = f.s[2]->find(*f.s[1]) + f.s[2]->find_last(*f.s[1]) + f.s[2]->contains(*f.s[1]) + f.s[2]->starts_with(*f.s[2]) + f.s[2]->ends_with(*f.s[2])
           + f.s[2]->find(f.stds.c_str(), ST::case_insensitive) + f.s[2]->ends_with(f.stds.c_str(), ST::case_insensitive) + f.s[2]->starts_with(*f.s[1], ST::case_insensitive); (void)sink);
    OP("compare/compare_i/==/hash (long operands)", volatile long sink = f.s[2]->compare(*f.s[1]) + f.s[2]->compare_i(*f.s[2]) + f.s[2]->compare_n(*f.s[1], 20) + (*f.s[2] == *f.s[1]) + (*f.s[2] < *f.s[1])
           + static_cast<long>(ST::hash()(*f.s[2]) & 0xff) + static_cast<long>(ST::hash_i()(*f.s[2]) & 0xff) + f.cb->compare(*f.cb) + f.b16->compare(*f.b16); (void)sink);
    OP("hex/base64 decode into a caller buffer", ST::string h = ST::hex_encode(f.sv[1].data(), f.sv[1].size()); ST::string b = ST::base64_encode(f.sv[1].data(), f.sv[1].size()); char out[2048];
           volatile long sink = static_cast<long>(ST::hex_decode(h, out, sizeof(out))) + static_cast<long>(ST::base64_decode(b, out, sizeof(out))) + static_cast<long>(ST::hex_decode(h, nullptr, 0)) + static_cast<long>(ST::base64_decode(b, nullptr, 0)); (void)sink);
    OP("to_int/to_double/to_bool (long text)", ST::conversion_result cr; volatile double sink = static_cast<double>(f.s[2]->to_long_long(cr)) + f.s[2]->to_double(cr) + f.s[2]->to_uint() + (f.s[2]->to_bool() ? 1 : 0); (void)sink);
    // --- strings
    OP("string(const char*)", ST::string x(f.stds.c_str()); (void)x);
    OP("string copy-ctor", ST::string x(*f.s[1]); (void)x);
    OP("string=string", *f.s[0] = *f.s[1]; E(f.sv[0] = f.sv[1]));
    OP("string=const char*", *f.s[0] = f.stds.c_str(); E(f.sv[0] = f.stds));
    OP("string=char_buffer", *f.s[0] = *f.cb; E(f.sv[0] = f.cbv));
    OP("string=utf16_buffer", *f.s[0] = *f.b16; E(f.sv[0] = f.sv[1]));
    OP("string=std::wstring", *f.s[0] = f.stdw; E(f.sv[0] = f.sv[1]));
    OP("string.set(string)", f.s[0]->set(*f.s[1]); E(f.sv[0] = f.sv[1]));
    OP("string.set(const char*,n,substitute_invalid)", f.s[0]->set(f.stds.c_str(), f.stds.size(), ST::substitute_invalid); E(f.sv[0] = f.stds));
    // ... the same with ill-formed text, where the repairing (substitute_invalid) paths make their own allocations
    OP("string.set(const char*,n,substitute_invalid) ill-formed", f.s[0]->set(f.bad8.data(), f.bad8.size(), ST::substitute_invalid); E(f.sv[0] = f.bad8fix));
    OP("string.set(char_buffer&&,substitute_invalid) ill-formed", ST::char_buffer tmp(f.bad8.data(), f.bad8.size()); f.s[0]->set(std::move(tmp), ST::substitute_invalid); E(f.sv[0] = f.bad8fix));
    OP("string.set(const char_buffer&,substitute_invalid) ill-formed", ST::char_buffer tmp(f.bad8.data(), f.bad8.size()); f.s[0]->set(tmp, ST::substitute_invalid); E(f.sv[0] = f.bad8fix));
    OP("string.set(std::string,substitute_invalid) ill-formed", f.s[0]->set(f.bad8, ST::substitute_invalid); E(f.sv[0] = f.bad8fix));
    OP("string(const char*,n,substitute_invalid) ill-formed", ST::string x(f.bad8.data(), f.bad8.size(), ST::substitute_invalid); (void)x);
    OP("string(char_buffer&&,substitute_invalid) ill-formed", ST::char_buffer tmp(f.bad8.data(), f.bad8.size()); ST::string x(std::move(tmp), ST::substitute_invalid); (void)x);
    OP("string.set(const char16_t*,n,substitute_invalid) ill-formed", f.s[0]->set(f.bad16.data(), f.bad16.size(), ST::substitute_invalid); E(f.sv[0] = f.bad16fix));
    OP("string.set(const char32_t*,n,substitute_invalid) ill-formed", f.s[0]->set(f.bad32.data(), f.bad32.size(), ST::substitute_invalid); E(f.sv[0] = f.bad32fix));
    OP("string+=string repaired from ill-formed UTF-16", ST::string x = ST::string::from_utf16(f.bad16.data(), f.bad16.size(), ST::substitute_invalid); *f.s[0] += x; E(f.sv[0] += f.bad16fix));
    OP("from_utf8/16/32 ill-formed, substitute_invalid", ST::string a = ST::string::from_utf8(f.bad8.data(), f.bad8.size(), ST::substitute_invalid);
       ST::string b = ST::string::from_utf16(f.bad16.data(), f.bad16.size(), ST::substitute_invalid); ST::string c = ST::string::from_utf32(f.bad32.data(), f.bad32.size(), ST::substitute_invalid); (void)a; (void)b; (void)c);
    OP("utf8_to_utf16/32/latin_1 ill-formed, substitute_invalid", ST::utf16_buffer a = ST::utf8_to_utf16(f.bad8.data(), f.bad8.size(), ST::substitute_invalid);
       ST::utf32_buffer b = ST::utf8_to_utf32(f.bad8.data(), f.bad8.size(), ST::substitute_invalid); ST::char_buffer c = ST::utf8_to_latin_1(f.bad8.data(), f.bad8.size(), ST::substitute_invalid); (void)a; (void)b; (void)c);
    OP("utf16/32_to_utf8 ill-formed, substitute_invalid", ST::char_buffer a = ST::utf16_to_utf8(f.bad16.data(), f.bad16.size(), ST::substitute_invalid);
       ST::char_buffer b = ST::utf32_to_utf8(f.bad32.data(), f.bad32.size(), ST::substitute_invalid); (void)a; (void)b);
    OP("string.set_validated(const char_buffer&)", f.s[0]->set_validated(*f.cb); E(f.sv[0] = f.cbv));
    OP("string.set_validated(char_buffer&&)", ST::char_buffer tmp(*f.cb); f.s[0]->set_validated(std::move(tmp)); E(f.sv[0] = f.cbv));
    OP("string::from_validated(const char_buffer&)", ST::string x = ST::string::from_validated(*f.cb); (void)x);
    OP("string.set_validated(char8_t*,n)", f.s[0]->set_validated(reinterpret_cast<const char8_t *>(f.stds.data()), f.stds.size()); E(f.sv[0] = f.stds));
    OP("string.set_validated", f.s[0]->set_validated(f.stds.c_str(), f.stds.size()); E(f.sv[0] = f.stds));
    OP("string+string", ST::string x = *f.s[0] + *f.s[1]; (void)x);
    OP("string+const char*", ST::string x = *f.s[0] + f.stds.c_str(); (void)x);
    OP("string+const wchar_t*", ST::string x = *f.s[0] + f.stdw.c_str(); (void)x);
    OP("string+char32_t", ST::string x = *f.s[1] + U'€'; (void)x);
    OP("string+=string", *f.s[0] += *f.s[1]; E(f.sv[0] += f.sv[1]));
    OP("string+=const char*", *f.s[0] += f.stds.c_str(); E(f.sv[0] += f.stds));
    OP("string+=const char16_t*", *f.s[0] += f.b16v.c_str(); E(f.sv[0] += f.sv[1]));
    OP("string+=char", *f.s[1] += 'c'; E(f.sv[1] += 'c'));
    OP("string+=self", *f.s[1] += *f.s[1]; E(f.sv[1] += f.sv[1]));
    OP("substr", ST::string x = f.s[1]->substr(1); (void)x);
    OP("substr(whole)", ST::string x = f.s[1]->substr(0); (void)x);
    OP("left/right", ST::string x = f.s[1]->left(f.sv[1].size() - 1); ST::string y = f.s[1]->right(f.sv[1].size() - 1); (void)x; (void)y);
    OP("trim", ST::string x = f.s[2]->trim("a, "); (void)x);
    OP("before_first/after_last", ST::string x = f.s[2]->before_first(','); ST::string y = f.s[2]->after_last(','); (void)x; (void)y);
    OP("replace", ST::string x = f.s[2]->replace(",", " <and> "); (void)x);
    OP("replace(string,string)", ST::string x = f.s[2]->replace(ST::string(","), *f.s[1]); (void)x);
    OP("split(char)", auto v = f.s[2]->split(','); (void)v);
    OP("split(const char*)", auto v = f.s[2]->split(", "); (void)v);
    OP("split(string)", auto v = f.s[2]->split(ST::string(",")); (void)v);
    OP("tokenize", auto v = f.s[2]->tokenize(" ,"); (void)v);
    OP("fill", ST::string x = ST::string::fill(60, 'f'); (void)x);
    OP("to_upper/to_lower", ST::string x = f.s[1]->to_upper(); ST::string y = f.s[1]->to_lower(); (void)x; (void)y);
    OP("to_utf8", ST::char_buffer x = f.s[1]->to_utf8(); (void)x);
    OP("to_utf16", auto x = f.s[1]->to_utf16(); (void)x);
    OP("to_utf32", auto x = f.s[1]->to_utf32(); (void)x);
    OP("to_wchar", auto x = f.s[1]->to_wchar(); (void)x);
    OP("to_latin_1", auto x = f.s[1]->to_latin_1(); (void)x);
    OP("to_std_string", auto x = f.s[1]->to_std_string(); (void)x);
    OP("to_std_u16string", auto x = f.s[1]->to_std_u16string(); (void)x);
    OP("to_std_wstring", auto x = f.s[1]->to_std_wstring(); (void)x);
    OP("to_buffer(utf32)", f.s[1]->to_buffer(*f.b32));
    OP("to_buffer(char)", f.s[2]->to_buffer(*f.cb); E(f.cbv = f.sv[2]));
    OP("from_utf8", ST::string x = ST::string::from_utf8(f.stds.c_str(), f.stds.size()); (void)x);
    OP("from_utf16", ST::string x = ST::string::from_utf16(*f.b16); (void)x);
    OP("from_utf32", ST::string x = ST::string::from_utf32(*f.b32); (void)x);
    OP("from_wchar", ST::string x = ST::string::from_wchar(f.stdw.c_str()); (void)x);
    OP("from_latin_1", ST::string x = ST::string::from_latin_1(*f.cb); (void)x);
    OP("from_std_string", ST::string x = ST::string::from_std_string(f.stds); (void)x);
    OP("from_validated(buffer)", ST::string x = ST::string::from_validated(*f.cb); (void)x);
    OP("from_int/from_double", ST::string x = ST::string::from_int(-1234567890123456789LL, 2); ST::string y = ST::string::from_double(1e100, 'f'); (void)x; (void)y);
    // --- free converters
    OP("utf8_to_utf16", auto x = ST::utf8_to_utf16(*f.cb); (void)x);
    OP("utf8_to_utf32", auto x = ST::utf8_to_utf32(*f.cb); (void)x);
    OP("utf8_to_wchar", auto x = ST::utf8_to_wchar(*f.cb); (void)x);
    OP("utf8_to_latin_1", auto x = ST::utf8_to_latin_1(*f.cb); (void)x);
    OP("utf16_to_utf8", auto x = ST::utf16_to_utf8(*f.b16); (void)x);
    OP("utf16_to_utf32", auto x = ST::utf16_to_utf32(*f.b16); (void)x);
    OP("utf16_to_latin_1", auto x = ST::utf16_to_latin_1(*f.b16); (void)x);
    OP("utf32_to_utf8", auto x = ST::utf32_to_utf8(*f.b32); (void)x);
    OP("utf32_to_utf16", auto x = ST::utf32_to_utf16(*f.b32); (void)x);
    OP("utf32_to_latin_1", auto x = ST::utf32_to_latin_1(*f.b32); (void)x);
    OP("wchar_to_utf8", auto x = ST::wchar_to_utf8(*f.bw); (void)x);
    OP("latin_1_to_utf8/16/32", auto x = ST::latin_1_to_utf8(*f.cb); auto y = ST::latin_1_to_utf16(*f.cb); auto z = ST::latin_1_to_utf32(*f.cb); (void)x; (void)y; (void)z);
    // --- codecs
    OP("hex_encode/decode", ST::string h = ST::hex_encode(*f.cb); ST::char_buffer d = ST::hex_decode(h); (void)d);
    OP("base64_encode/decode", ST::string h = ST::base64_encode(*f.cb); ST::char_buffer d = ST::base64_decode(h); (void)d);
    // --- formatting
    OP("format(strings,int)", ST::string x = ST::format("{} / {>40} / {x} / {}", *f.s[1], *f.s[2], 123456, *f.s[1]); (void)x);
    OP("format(long padding)", ST::string x = ST::format("{_*600}|{}", 5, *f.s[1]); (void)x);
    OP("format(wide string)", ST::string x = ST::format("{}{}", f.stdw, f.b16v.c_str()); (void)x);
    OP("format(double, big)", ST::string x = ST::format("{f} {.80e}", 1e200, 1.5); (void)x);
    OP("format_latin_1", ST::string x = ST::format_latin_1("{} {}", *f.s[1], 7); (void)x);
    // --- string_stream
    OP("stream.append (growth)", f.stream_prefix_ok = true; f.ss->append(f.sv[1].data(), f.sv[1].size()); f.ss->append_char('x', 300));
    OP("stream.append (several doublings)", f.stream_prefix_ok = true; S big; E(big.assign(5000, 'b')); f.ss->append(big.data(), big.size()));
    OP("stream<<string/int/double", f.stream_prefix_ok = true; *f.ss << *f.s[1] << 123456789 << 1e300 << *f.s[2]; f.ss->append_char('-', 400));
    OP("stream<<wstring", f.stream_prefix_ok = true; *f.ss << f.stdw << f.b16v; f.ss->append_char('-', 400));
    OP("stream emptied then regrown", f.stream_prefix_ok = true; f.ss->truncate(); E(f.ssv.clear()); S big; E(big.assign(3000, 'r')); f.ss->append(big.data(), big.size()));
    OP("stream erased then regrown", f.stream_prefix_ok = true; f.ss->erase(f.ss->size()); E(f.ssv.clear()); f.ss->append_char('e', 2500));
    OP("stream.to_string", ST::string x = f.ss->to_string(); ST::string y = f.ss->to_string(false); (void)x; (void)y);
    OP("stream move then append", f.stream_moved = true; ST::string_stream other(std::move(*f.ss)); other.append_char('y', 1000); f.ss->append_char('z', 700));
    // --- iostream
    IOP("ostream<<string", std::ostringstream os; os << *f.s[1] << *f.s[2]; if (!os) throw std::bad_alloc());
    IOP("wostream<<string", std::wostringstream os; os << *f.s[1]; if (!os) throw std::bad_alloc());
    IOP("istream>>string", std::istringstream is(f.sv[1] + " second"); is >> *f.s[0]; if (!is) throw std::bad_alloc(); E(f.sv[0] = f.sv[1]));
    IOP("writef(ostream)", std::ostringstream os; ST::writef(os, "{} {>300} {}", *f.s[1], 5, *f.s[2]); if (!os) throw std::bad_alloc());
    // --- scale phase only: operations on objects in states that are only reached at scale
    // a stream that once held >= 64 KiB, was cut back to a few bytes and now gets more than fits into its block, in one call
    SOP("big stream: append_char just beyond the capacity", f.stream_prefix_ok = true; f.ss->append_char('y', f.stream_room + 1));
    SOP("big stream: append_char far beyond the capacity", f.stream_prefix_ok = true; f.ss->append_char('y', 2 * f.stream_cap + 3));
    SOP("big stream: append(ptr,len) just beyond the capacity", f.stream_prefix_ok = true; f.ss->append(f.blob.data(), f.stream_room + 1));
    SOP("big stream: append(ptr,len) far beyond the capacity", f.stream_prefix_ok = true; f.ss->append(f.blob.data(), f.blob.size()));
    SOP("big stream: << const char* beyond the capacity", f.stream_prefix_ok = true; *f.ss << f.blob.c_str());
    SOP("big stream: << big string twice", f.stream_prefix_ok = true; *f.ss << *f.s[1] << *f.s[1]);
    SOP("big stream: fill exactly to the capacity, then one more", f.stream_prefix_ok = true; f.ss->append_char('f', f.stream_room); f.ss->append_char('g'));
    SOP("big stream: hundreds of appends across several doublings", f.stream_prefix_ok = true; for (size_t at = 0; at < f.blob.size(); at += 1000) f.ss->append(f.blob.data() + at, std::min<size_t>(1000, f.blob.size() - at)));
    SOP("big stream: truncate() then regrow beyond the capacity", f.stream_prefix_ok = true; f.ss->truncate(); E(f.ssv.clear()); f.ss->append(f.blob.data(), f.stream_cap + 1));
    SOP("big stream: erase all then << const char* beyond the capacity", f.stream_prefix_ok = true; f.ss->erase(f.ss->size()); E(f.ssv.clear()); *f.ss << f.blob.c_str());
    SOP("big stream: move-construct, both appended to beyond the capacity", f.stream_moved = true; ST::string_stream other(std::move(*f.ss)); other.append_char('y', f.stream_cap + 1); f.ss->append_char('z', f.stream_cap + 1));
    SOP("big stream: move-assigned a fresh stream, then regrown", f.stream_prefix_ok = true; *f.ss = ST::string_stream(); E(f.ssv.clear()); f.ss->append(f.blob.data(), f.blob.size()));
    SOP("big stream: to_string of the cut-back stream, then regrow", f.stream_prefix_ok = true; ST::string x = f.ss->to_string(); f.ss->append_char('y', f.stream_room + 1); (void)x);
    // big buffers / strings released and re-acquired, values of exactly the size the object already holds
    SOP("big char_buffer cleared and re-allocated", f.cb->clear(); E(f.cbv.clear()); f.cb->allocate(f.sv[1].size(), 'k'); E(f.cbv.assign(f.sv[1].size(), 'k')));
    SOP("big char_buffer.allocate(its own size)", f.cb->allocate(f.cb->size(), 'k'); E(f.cbv.assign(f.cbv.size(), 'k')));
    SOP("big utf16_buffer.allocate(its own size)", f.b16->allocate(f.b16->size(), u'k'); E(f.b16v.assign(f.b16v.size(), u'k')));
    SOP("big utf32_buffer.allocate(its own size)", f.b32->allocate(f.b32->size()); for (size_t i = 0; i < f.b32->size(); ++i) (*f.b32)[i] = U'k'; E(f.b32v.assign(f.b32v.size(), U'k')));
    SOP("big wchar_buffer.allocate(its own size)", f.bw->allocate(f.bw->size(), L'k'); E(f.bwv.assign(f.bwv.size(), L'k')));
    SOP("big char_buffer=char_buffer of exactly its size", ST::char_buffer src(f.cb->size(), 'z'); *f.cb = src; E(f.cbv.assign(f.cbv.size(), 'z')));
    SOP("big utf16_buffer=utf16_buffer of exactly its size", ST::utf16_buffer src(f.b16->size(), u'z'); *f.b16 = src; E(f.b16v.assign(f.b16v.size(), u'z')));
    SOP("big utf32_buffer=utf32_buffer of exactly its size", ST::utf32_buffer src(f.b32->size(), U'z'); *f.b32 = src; E(f.b32v.assign(f.b32v.size(), U'z')));
    SOP("big wchar_buffer=wchar_buffer of exactly its size", ST::wchar_buffer src(f.bw->size(), L'z'); *f.bw = src; E(f.bwv.assign(f.bwv.size(), L'z')));
    SOP("big char_buffer=char_buffer one shorter than it", ST::char_buffer src(f.cb->size() - 1, 'y'); *f.cb = src; E(f.cbv.assign(f.cbv.size() - 1, 'y')));
    SOP("big char_buffer=char_buffer one longer than it", ST::char_buffer src(f.cb->size() + 1, 'y'); *f.cb = src; E(f.cbv.assign(f.cbv.size() + 1, 'y')));
    SOP("big string=string of exactly its size", ST::string src = ST::string::fill(f.s[0]->size(), 'z'); *f.s[0] = src; E(f.sv[0].assign(f.sv[0].size(), 'z')));
    SOP("big string.set(const char*,n) of exactly its size", S src; E(src.assign(f.sv[0].size(), 'z')); f.s[0]->set(src.data(), src.size(), ST::assume_valid); E(f.sv[0] = src));
    SOP("big string=itself (same object)", ST::string &alias = *f.s[1]; *f.s[1] = alias);
    SOP("big string cleared, then set again", f.s[0]->clear(); E(f.sv[0].clear()); f.s[0]->set(*f.s[1]); E(f.sv[0] = f.sv[1]));
    SOP("big string: the argument cleared, the target copy-assigned from a third", f.s[1]->clear(); E(f.sv[1].clear()); *f.s[0] = *f.s[2]; E(f.sv[0] = f.sv[2]));
    SOP("big copy-constructed char_buffer=char_buffer of exactly its size", ST::char_buffer src(f.cbc->size(), 'z'); *f.cbc = src; E(f.cbcv.assign(f.cbcv.size(), 'z')));
    SOP("big copy-constructed string=string of exactly its size", ST::string src = ST::string::fill(f.sc->size(), 'z'); *f.sc = src; E(f.scv.assign(f.scv.size(), 'z')));
    SOP("several copies of a big string alive at once", std::vector<ST::string> v; for (int i = 0; i < 6; ++i) v.push_back(*f.s[1]); ST::string last = v[0] + v[5]; (void)last);
    SOP("several big buffers alive at once, cleared in turn", ST::char_buffer a(*f.cb); ST::char_buffer b(*f.cb); ST::char_buffer c(f.cb->size(), 'c'); a.clear(); ST::char_buffer d(*f.cb); b = c; c = d; d.allocate(f.cb->size()));
    SOP("big substr / left / right at the ends", ST::string x = f.s[1]->substr(1, f.sv[1].size() - 2); ST::string y = f.s[1]->left(f.sv[1].size() - 1); ST::string z = f.s[1]->right(f.sv[1].size() - 1); (void)x; (void)y; (void)z);
    SOP("big find/replace of a late needle", ST::string x = f.s[2]->replace("tail of", "TAIL OF"); ST::string y = f.s[2]->replace("tail", *f.s[1], ST::case_insensitive); (void)x; (void)y);
    SOP("big split with a limit / after_first / before_last", auto v = f.s[2]->split(',', 2); ST::string x = f.s[2]->after_first(','); ST::string y = f.s[2]->before_last(','); (void)v; (void)x; (void)y);
    SOP("big format: a padded field wider than 64 KiB and big strings", ST::string x = ST::format("{>70000}|{<66000}|{}", 5, "x", *f.s[1]); (void)x);
    SOP("big hex/base64 round trips", ST::string h = ST::hex_encode(f.sv[1].data(), f.sv[1].size()); ST::char_buffer d = ST::hex_decode(h); ST::string b = ST::base64_encode(f.sv[1].data(), f.sv[1].size()); ST::char_buffer e = ST::base64_decode(b); (void)d; (void)e);
#undef OP
#undef IOP
#undef SOP
    return t;
}

// One case of the enumeration: count the allocations N of the call on fresh fixtures, then re-run it on fresh fixtures with the
// k-th allocation failing, for every k = 1..N (when N > max_all, which only the scale phase allows: the first and last ones
// and a spread of the ones in between).  Returns N.
static uint64_t enumerate_faults(const Op &op, const std::function<void(Fix &)> &setup, uint64_t max_all, Rng &r)
{
    // run 0: count the allocations of the call
    uint64_t n = 0;
    {
        const size_t base = va::reg().live_lib;
        {
        Fix f;
        {
            va::LibScope ls;
            setup(f);
        }
        g_k = 0;
        g_max_request = 0;
        vrt::cur_rewind();
        vrt::cur_printf("op=%s %s (counting run)\n", g_op.c_str(), g_variant.c_str());
        try {
            va::LibScope ls;
            op.run(f);
            n = va::reg().lib_allocs;
            g_max_request = va::reg().max_request;
        } catch (const std::exception &e) {
            fail("failed-without-a-fault", e.what());
        }
        f.verify_after_fault();        // same invariants hold after a successful call (values were updated by the op body)
        f.teardown();
        }
        if (va::reg().live_lib != base) { fail("leak-without-a-fault", sfmt("%zu blocks", va::reg().live_lib - base)); va::reg().live_lib = base; }
    }
    std::vector<uint64_t> ks;
    if (n <= max_all) {
        for (uint64_t k = 1; k <= n; ++k) ks.push_back(k);
    } else {
        for (uint64_t k = 1; k <= max_all / 2; ++k) ks.push_back(k);
        for (uint64_t j = 0; j < max_all / 4; ++j) ks.push_back(max_all / 2 + 1 + r.below(n - max_all / 2 - max_all / 4));
        for (uint64_t k = n - max_all / 4 + 1; k <= n; ++k) ks.push_back(k);
        vrt::count("scale.fault_indices_sampled");
    }
    for (uint64_t k : ks) {
        const size_t base = va::reg().live_lib;
        {
        Fix f;
        {
            va::LibScope ls;
            setup(f);
        }
        // remember the pre-fault values: the op bodies update the expectations only when they complete
        S sv0 = f.sv[0], sv1 = f.sv[1], sv2 = f.sv[2], cbv = f.cbv, ssv = f.ssv, cbcv = f.cbcv, scv = f.scv;
        std::u32string b32cv = f.b32cv;
        std::u16string b16v = f.b16v; std::u32string b32v = f.b32v; std::wstring bwv = f.bwv;
        g_k = static_cast<int64_t>(k);
        vrt::cur_rewind();
        vrt::cur_printf("op=%s %s failing allocation %llu of %llu\n", g_op.c_str(), g_variant.c_str(), static_cast<unsigned long long>(k), static_cast<unsigned long long>(n));
        bool got_bad_alloc = false, completed = false;
        va::fail_nth(static_cast<int64_t>(k));
        try {
            va::LibScope ls;
            op.run(f);
            completed = true;
        } catch (const std::bad_alloc &) {
            got_bad_alloc = true;
        } catch (const std::exception &e) {
            va::fail_off();
            fail("wrong-exception", sfmt("%s: %s", vrt::demangle(typeid(e).name()).c_str(), e.what()));
        }
        const bool fired = va::reg().fired;
        va::fail_off();
        vrt::evals();
        if (fired) vrt::count("faults.injected");
        if (fired && got_bad_alloc) vrt::count("faults.bad_alloc_reached_caller");
        if (fired && completed) {
            if (op.iostream_protocol) vrt::count("faults.reported_through_stream_state");
            else fail("bad_alloc-swallowed", "the call returned normally although one of its allocations failed");
        }
        if (!completed) {
            // restore the pre-fault expectations (the op body may have updated some before the throwing statement)
            f.sv[0] = sv0; f.sv[1] = sv1; f.sv[2] = sv2; f.cbv = cbv; f.ssv = ssv; f.b16v = b16v; f.b32v = b32v; f.bwv = bwv;
            f.cbcv = cbcv; f.scv = scv; f.b32cv = b32cv;
        }
        f.verify_after_fault();
        f.teardown();
        }
        if (va::reg().live_lib != base) {
            fail("leak", sfmt("%zu library allocations survive the destruction of every object involved", va::reg().live_lib - base));
            va::reg().live_lib = base;
        }
        va::check_pairing("oom");
    }
    return n;
}

// ---- soak: tens of thousands of consecutive calls on the same few long-lived objects in one process ----------------------
// Each call runs with or without an injected failure of its k-th allocation.  The expectations are exact: after a call that
// completed the target holds the new value, after one that failed its previous value or nothing (and says so through
// c_str() / data() as well); what it holds then is the starting point of the next call.
struct SoakTally {
    uint64_t calls = 0, injected = 0, completed = 0, left_previous = 0, left_empty = 0, successors_at_same_address = 0, successor_blocks_at_same_address = 0,
             dull_runs = 0, by_family[7] = {0, 0, 0, 0, 0, 0, 0};
};
static SoakTally *g_tally = nullptr;

template <typename Fn>
static bool soak_call(int64_t k, Fn &&fn)
{
    bool completed = false, bad = false;
    g_k = k;
    if (k > 0) va::fail_nth(k);
    try {
        va::LibScope ls;
        fn();
        completed = true;
    } catch (const std::bad_alloc &) {
        bad = true;
    } catch (const std::exception &e) {
        va::fail_off();
        fail("wrong-exception", sfmt("%s: %s", vrt::demangle(typeid(e).name()).c_str(), e.what()));
    }
    const bool fired = va::reg().fired;
    va::fail_off();
    ++g_tally->calls;
    vrt::evals();
    if (fired) {
        ++g_tally->injected;
        vrt::count("faults.injected");
        if (bad) vrt::count("faults.bad_alloc_reached_caller");
        if (completed) fail("bad_alloc-swallowed", "the call returned normally although one of its allocations failed");
    } else if (bad) {
        fail("failed-without-a-fault", "std::bad_alloc although no allocation of the call was made to fail");
    }
    if (completed) ++g_tally->completed;
    return completed;
}

static S soak_text(Rng &r, size_t n)
{
    S t(n, 'a');
    for (size_t i = 0; i < n; ++i) t[i] = static_cast<char>('a' + r.below(26));
    for (size_t i = 0; i + 1 < n; i += 2 + r.below(9)) if (r.chance(1, 3)) { t[i] = '\xC3'; t[i + 1] = '\xA9'; }
    return t;
}

// after the call: exact value when it completed, previous value or empty (readable as such) when it failed
template <typename C>
static bool soak_settle_buffer(Fix &f, const char *name, Obj<ST::buffer<C>> &o, std::basic_string<C> &model, const std::basic_string<C> &prev, const std::basic_string<C> &val, bool done)
{
    va::HarnessScope hs;
    model = done ? val : prev;
    f.check_buffer<C>(name, o, model);
    if (!o.p) return false;
    std::basic_string<C> now(o->data(), o->size());
    if (done && now != model) fail("wrong-value-without-a-fault", sfmt("%s holds %s, expected %s", name, vrt::hex(now.data(), now.size(), sizeof(C), 30).c_str(), vrt::hex(model.data(), model.size(), sizeof(C), 30).c_str()));
    if (!done) ++(now.empty() && !prev.empty() ? g_tally->left_empty : g_tally->left_previous);
    model = now;
    return true;
}

template <typename C>
static bool soak_buffer(Fix &f, const char *name, Obj<ST::buffer<C>> &o, std::basic_string<C> &model, Rng &r, int64_t k)
{
    typedef ST::buffer<C> B;
    typedef std::basic_string<C> V;
    const size_t limit = (sizeof(B) - 16) / sizeof(C);
    const size_t lens[] = {0, 1, limit - 1, limit, limit + 1, 40, 64, 100, 256, 300, model.size(), model.size()};
    const size_t n = lens[r.below(12)];
    V val(n, C('a')), prev = model;
    for (C &c : val) c = static_cast<C>('a' + r.below(26));
    bool done = false;
    switch (r.below(6)) {
    case 0: { const B src(val.data(), n); g_op = sfmt("soak: %s=%s", name, name); done = soak_call(k, [&] { *o = src; }); break; }
    case 1: { const C fill = static_cast<C>('A' + r.below(26)); val.assign(n, fill); g_op = sfmt("soak: %s.allocate(n,fill)", name); done = soak_call(k, [&] { o->allocate(n, fill); }); break; }
    case 2: { g_op = sfmt("soak: %s.allocate(n)", name); done = soak_call(k, [&] { o->allocate(n); }); if (done && o->size() == n) std::char_traits<C>::copy(o->data(), val.data(), n); break; }
    case 3: { g_op = sfmt("soak: %s=temporary", name); done = soak_call(k, [&] { *o = B(val.data(), n); }); break; }
    case 4: {       // the object dies and its successor is copy-constructed right where it was (and, same size, into its heap block)
        const B src(val.data(), n);
        const void *was = o->data();
        const bool heap = o->size() >= limit;
        vrt::placement_force_parks() = 1;
        o.p->~B();
        vrt::placement_force_parks() = 0;
        g_op = sfmt("soak: %s copy-constructed where its predecessor was", name);
        done = soak_call(k, [&] { new (o.p) B(src); });
        if (!done) { new (o.p) B(); prev.clear(); }
        ++g_tally->successors_at_same_address;
        if (done && heap && o->data() == was) ++g_tally->successor_blocks_at_same_address;
        break;
    }
    default: { val = prev; g_op = sfmt("soak: %s through two copies and back", name); done = soak_call(k, [&] { B copy(*o); B other(copy); *o = other; }); break; }
    }
    return soak_settle_buffer<C>(f, name, o, model, prev, val, done);
}

static bool soak_string(Fix &f, Rng &r, int64_t k)
{
    Obj<ST::string> &o = f.s[0];
    S &model = f.sv[0];
    const size_t lens[] = {0, 1, 15, 16, 17, 40, 64, 100, 256, 300, model.size(), model.size()};
    const size_t n = lens[r.below(12)];
    S val = soak_text(r, n), prev = model;
    bool done = false;
    unsigned what = static_cast<unsigned>(r.below(9));
    if (model.size() > 3000 && (what == 2 || what == 5)) what = 0;
    switch (what) {
    case 0: { const ST::string src = ST::string::from_validated(val.data(), n); g_op = "soak: string=string"; done = soak_call(k, [&] { *o = src; }); break; }
    case 1: g_op = "soak: string.set_validated(const char*,n)"; done = soak_call(k, [&] { o->set_validated(val.data(), n); }); break;
    case 2: { size_t m = std::min<size_t>(n, 40); if (m && val[m - 1] == '\xC3') --m; const ST::string piece = ST::string::from_validated(val.data(), m); val = prev + val.substr(0, m); g_op = "soak: string+=string"; done = soak_call(k, [&] { *o += piece; }); break; }
    case 3: g_op = "soak: string=const char*"; done = soak_call(k, [&] { *o = val.c_str(); }); break;
    case 4: val = f.cbv; g_op = "soak: string.set(const char_buffer&)"; done = soak_call(k, [&] { o->set(*f.cb); }); break;
    case 5: val = prev + f.sv[1]; g_op = "soak: string=string+string"; done = soak_call(k, [&] { *o = *o + *f.s[1]; }); break;
    case 6: {
        const ST::string src = ST::string::from_validated(val.data(), n);
        const void *was = o->c_str();
        const bool heap = o->size() >= 16;
        vrt::placement_force_parks() = 1;
        o.p->~string();
        vrt::placement_force_parks() = 0;
        g_op = "soak: string copy-constructed where its predecessor was";
        done = soak_call(k, [&] { new (o.p) ST::string(src); });
        if (!done) { new (o.p) ST::string(); prev.clear(); }
        ++g_tally->successors_at_same_address;
        if (done && heap && o->c_str() == was) ++g_tally->successor_blocks_at_same_address;
        break;
    }
    case 7: val = f.sv[1]; g_op = "soak: string=argument string"; done = soak_call(k, [&] { *o = *f.s[1]; }); break;
    default: g_op = "soak: string.set(const char*,n,substitute_invalid)"; done = soak_call(k, [&] { o->set(val.data(), n, ST::substitute_invalid); }); break;
    }
    va::HarnessScope hs;
    model = done ? val : prev;
    f.check_string("target string", o, model);
    if (!o.p) return false;
    S now(o->c_str(), o->size());
    if (done && now != model) fail("wrong-value-without-a-fault", sfmt("target string holds %s, expected %s", vrt::hex(now.data(), now.size(), 1, 30).c_str(), vrt::hex(model.data(), model.size(), 1, 30).c_str()));
    if (!done) ++(now.empty() && !prev.empty() ? g_tally->left_empty : g_tally->left_previous);
    model = now;
    return true;
}

static bool soak_stream(Fix &f, Rng &r, int64_t k)
{
    Obj<ST::string_stream> &o = f.ss;
    S &model = f.ssv;
    S prev = model, val = model;
    bool done = false, read_only = false;
    f.stream_prefix_ok = false;
    f.stream_moved = false;
    unsigned what = static_cast<unsigned>(r.below(8));
    if (model.size() > 70000) what = 7;
    switch (what) {
    case 0: { const S piece = soak_text(r, 1 + r.below(600)); val += piece; g_op = "soak: stream.append(ptr,n)"; done = soak_call(k, [&] { o->append(piece.data(), piece.size()); }); break; }
    case 1: { const char c = static_cast<char>('a' + r.below(26)); const size_t n = 1 + r.below(600); val.append(n, c); g_op = "soak: stream.append_char(c,n)"; done = soak_call(k, [&] { o->append_char(c, n); }); break; }
    case 2: { const long long v = static_cast<long long>(r.next() >> (1 + r.below(62))); val += std::to_string(v); g_op = "soak: stream<<integer"; done = soak_call(k, [&] { *o << v; }); break; }
    case 3: val += f.sv[1]; g_op = "soak: stream<<string"; done = soak_call(k, [&] { *o << *f.s[1]; }); break;
    case 4: { const size_t m = r.below(model.size() + 2); val.resize(std::min(m, model.size())); g_op = "soak: stream.truncate(n)"; done = soak_call(k, [&] { o->truncate(m); }); break; }
    case 5: { const size_t m = r.below(model.size() / 2 + 2); val.resize(model.size() - std::min(m, model.size())); g_op = "soak: stream.erase(n)"; done = soak_call(k, [&] { o->erase(m); }); break; }
    case 6: {       // read as Latin-1: every byte >= 0x80 becomes two
        S expect, got;
        for (unsigned char c : model) { if (c < 0x80) expect += static_cast<char>(c); else { expect += static_cast<char>(0xC0 | (c >> 6)); expect += static_cast<char>(0x80 | (c & 0x3F)); } }
        g_op = "soak: stream.to_string(latin-1)";
        read_only = true;
        done = soak_call(k, [&] { ST::string x = o->to_string(false); va::HarnessScope hs; got.assign(x.c_str(), x.size()); });
        if (done && got != expect) fail("wrong-value-without-a-fault", sfmt("to_string(false) of a stream of %zu bytes returned %zu bytes, expected %zu", model.size(), got.size(), expect.size()));
        break;
    }
    default: val.clear(); g_op = "soak: stream=fresh stream"; done = soak_call(k, [&] { *o = ST::string_stream(); }); break;
    }
    (void)read_only;
    va::HarnessScope hs;
    model = done ? val : prev;
    f.check_stream();
    if (!o.p) return false;
    S now(o->raw_buffer(), o->size());
    if (done && now != model) fail("wrong-value-without-a-fault", sfmt("the stream holds %zu bytes, expected %zu (first difference at %zu)", now.size(), model.size(), scale::first_diff(now, model)));
    if (!done) ++(now.empty() && !prev.empty() ? g_tally->left_empty : g_tally->left_previous);
    model = now;
    return true;
}

// calls that have no target: the failure must reach the caller, the result of a completed call must be right
static void soak_no_target(Fix &f, Rng &r, int64_t k)
{
    const long long v = static_cast<long long>(r.next() >> (1 + r.below(62)));
    S got, expect;
    switch (r.below(3)) {
    case 0: {
        char tail[80];
        snprintf(tail, sizeof(tail), "|%20lld|%llx", v, static_cast<unsigned long long>(v));
        expect = f.sv[1] + tail;
        g_op = "soak: format(string,int,int)";
        if (soak_call(k, [&] { ST::string x = ST::format("{}|{>20}|{x}", *f.s[1], v, v); va::HarnessScope hs; got.assign(x.c_str(), x.size()); }) && got != expect)
            fail("wrong-value-without-a-fault", sfmt("format returned %s", vrt::hex(got.data(), got.size(), 1, 40).c_str()));
        break;
    }
    case 1: {
        static const char digits[] = "0123456789abcdef";
        for (unsigned char c : f.cbv) { expect += digits[c >> 4]; expect += digits[c & 15]; }
        g_op = "soak: hex_encode/hex_decode";
        if (soak_call(k, [&] { ST::string h = ST::hex_encode(*f.cb); ST::char_buffer back = ST::hex_decode(h); va::HarnessScope hs; got.assign(h.c_str(), h.size()); if (S(back.data(), back.size()) != f.cbv) got += "?"; }) && got != expect)
            fail("wrong-value-without-a-fault", sfmt("hex_encode returned %s", vrt::hex(got.data(), got.size(), 1, 40).c_str()));
        break;
    }
    default: {
        std::u16string u16, gotu;
        ref::to_utf16(ref::decode_utf8(f.sv[0]), false, u16);
        g_op = "soak: to_utf16/from_utf16";
        if (soak_call(k, [&] { ST::utf16_buffer b = f.s[0]->to_utf16(); ST::string back = ST::string::from_utf16(b); va::HarnessScope hs; gotu.assign(b.data(), b.size()); got.assign(back.c_str(), back.size()); }) && (gotu != u16 || got != f.sv[0]))
            fail("wrong-value-without-a-fault", sfmt("to_utf16 / from_utf16 of %zu bytes returned %zu units / %zu bytes", f.sv[0].size(), gotu.size(), got.size()));
        break;
    }
    }
}

// ---- content of the scale fixtures: lengths on and next to multiples of the block sizes, a pure function of the case's Rng
static S scale_text(Rng &r, size_t n, bool ascii_only)
{
    // runs of letters with an occasional two-byte character; generated in blocks so that a MiB costs little
    S unit;
    const size_t ulen = 512 + r.below(512);
    while (unit.size() < ulen) { if (!ascii_only && r.chance(1, 7)) ref::enc_utf8(unit, 0xE9); else unit += static_cast<char>('a' + r.below(26)); }
    S t;
    t.reserve(n + 2);
    while (t.size() + unit.size() <= n) {
        t += unit;
        const size_t p = r.below(unit.size());
        if (static_cast<unsigned char>(unit[p]) < 0x80) unit[p] = static_cast<char>('a' + r.below(26));
    }
    while (t.size() < n) t += static_cast<char>('a' + r.below(26));
    return t;
}

static void make_big(Big &c, Rng &r, unsigned shape, size_t L)
{
    c.shape = shape;
    c.L = L;
    // 0: target exactly as long as the argument; 1: both big, different lengths; 2: short target, big argument; 3: big target, short argument
    const size_t other = scale::length(r, 1u << 20, 60000);
    c.sv[0] = shape == 2 ? scale_text(r, r.below(15), false) : scale_text(r, shape == 1 ? other : L, false);
    c.sv[1] = shape == 3 ? scale_text(r, 1 + r.below(14), true) : scale_text(r, L, false);
    {
        // a few big pieces with the separators the split / trim / replace operations look for (few, so that the number of
        // allocations of a call stays small enough for every one of them to be failed in turn)
        const size_t pieces = 2 + r.below(4), total = scale::length(r, 1u << 20, 60000);
        c.sv[2] = "a, b,c ,, ";
        for (size_t i = 0; i < pieces; ++i) { c.sv[2] += scale_text(r, total / pieces, false); c.sv[2] += (i % 2) ? "," : ", "; }
        c.sv[2] += " tail of a longer piece";
    }
    {
        ref::Decoded d = ref::decode_utf8(c.sv[1]);
        ref::to_utf16(d, false, c.b16v);
        ref::to_utf32(d, false, c.b32v);
        c.bwv.assign(c.b32v.begin(), c.b32v.end());
    }
    for (unsigned &h : c.hist) h = static_cast<unsigned>(r.below(N_HIST));
    // the stream: once >= 64 KiB, now whole or cut back to <= 256 bytes (or a little more)
    {
        static const size_t keeps[] = {0, 1, 7, 15, 16, 17, 100, 255, 256, 257, 300, 5000};
        static const size_t chunks[] = {0, 0, 17, 255, 1000, 4096, 65536};
        c.stream_history = scale_text(r, scale::length(r, 1u << 20, 65536), true);
        c.cut = shape == 3 ? 0 : 1 + static_cast<unsigned>(r.below(3));
        c.keep = c.cut == 1 ? 0 : r.pick(keeps);
        c.chunk = r.pick(chunks);
    }
    // ill-formed text of 64 KiB and more: damage on and next to multiples of the block sizes
    {
        static const char *const junk[] = {"\x80", "\xC3", "\xE2\x82", "\xF0\x9F\x98", "\xFF", "\xC0\x80", "\xF4\x90\x80\x80"};
        const size_t n8 = scale::length(r, 200000, 65536), n16 = scale::length(r, 100000, 65536), n32 = scale::length(r, 100000, 65536);
        c.bad8 = scale_text(r, n8, true);
        c.bad16.assign(n16, u'w');
        c.bad32.assign(n32, U'\x101');
        const size_t pieces = 3 + r.below(12);
        for (size_t i = 0; i < pieces; ++i) {
            scale::plant(c.bad8, scale::offset_any(r, n8), junk[r.below(sizeof(junk) / sizeof(junk[0]))]);
            c.bad16[std::min(n16 - 1, scale::offset_any(r, n16))] = static_cast<char16_t>(r.chance(1, 2) ? 0xD800 + r.below(0x400) : 0xDC00 + r.below(0x400));
            c.bad32[std::min(n32 - 1, scale::offset_any(r, n32))] = static_cast<char32_t>(0x110000 + r.below(100));
        }
        c.bad8 += junk[r.below(sizeof(junk) / sizeof(junk[0]))];
        c.bad8fix = ref::cleanup_utf8(c.bad8);
        ref::to_utf8(ref::decode_utf16(c.bad16.data(), c.bad16.size()), false, c.bad16fix);
        ref::to_utf8(ref::decode_utf32(c.bad32.data(), c.bad32.size()), false, c.bad32fix);
    }
}

static void body()
{
    vrt::require("faults.injected", 500);
    vrt::require("faults.bad_alloc_reached_caller", 500);
    vrt::require("ops.covered", 119);
    static const std::vector<Op> all_ops = table();
    static std::vector<Op> ops;
    for (const Op &o : all_ops) if (!o.scale_only) ops.push_back(o);
    const size_t nvar = vrt::tier_count(40, 160);      // random fillings per (operation, storage-mode combination)
    vrt::note(sfmt("fault enumeration: %zu allocating operations x 4 storage-mode combinations (short/long target x short/long argument) x %zu random fillings x every allocation index k = 1..N of the call", ops.size(), nvar));
    vrt::phase("fault_enumeration", ops.size() * 4 * nvar, [&](uint64_t idx, Rng &r) {
        const Op &op = ops[idx % ops.size()];
        const unsigned mode = static_cast<unsigned>((idx / ops.size()) % 4);
        const bool lt = mode & 1, la = mode & 2;
        g_op = op.name;
        g_variant = sfmt("target=%s argument=%s filling #%llu", lt ? "long" : "short", la ? "long" : "short", static_cast<unsigned long long>(idx / (ops.size() * 4)));
        const uint64_t fixseed = r.next();
        const uint64_t n = enumerate_faults(op, [&](Fix &f) { Rng fr(fixseed); f.setup(fr, lt, la); }, UINT64_MAX, r);
        vrt::count(sfmt("allocs_per_call.%s", n == 0 ? "0" : n == 1 ? "1" : n <= 3 ? "2-3" : "4+"));
        if (idx < ops.size()) vrt::count("ops.covered");
        vrt::distinct(vrt::fnv_u64(fixseed, vrt::fnv_str(op.name, mode + 151)));
        if (vrt::want_sample(op.name, 1) && n > 1) vrt::sample(op.name, sfmt("%s, %s: %llu allocations, each failed once", op.name, g_variant.c_str(), static_cast<unsigned long long>(n)), 1);
    });

    // scale: the same table (plus operations on objects in states only reached at scale) on fixtures of 64 KiB .. 1 MiB whose
    // lengths sit on / next to multiples of the block sizes: strings and buffers that were cleared and re-allocated, copy-assigned
    // a value of exactly their own size, built by hundreds of appends; a stream that grew to >= 64 KiB, was cut back to <= 256
    // bytes and is appended to beyond its capacity.  Same enumeration, same monitors.
    {
        vrt::require("scale.cases", 100);
        vrt::require("scale.ops_covered", all_ops.size());
        vrt::require("scale.faults.injected", 300);
        vrt::require("scale.faults.in_calls_allocating>=64KiB", 100);
        vrt::require("scale.stream.cut_back_then_grown_under_fault", 10);
        vrt::require("scale.target_same_size_as_argument", 20);
        vrt::require("scale.fixture>=512KiB", 10);
        const std::vector<size_t> &BL = scale::blocks();
        size_t first_big = 0;
        while (BL[first_big] < 16384) ++first_big;
        const size_t nb = BL.size() - first_big;
        const size_t rounds = vrt::tier_count(4, 96);
        vrt::phase("scale", all_ops.size() * rounds, [&](uint64_t idx, Rng &r) {
            const Op &op = all_ops[idx % all_ops.size()];
            const uint64_t j = idx / all_ops.size();
            const unsigned shape = static_cast<unsigned>(j % 4);
            // the length walks a grid block size x multiple; 16 KiB .. 48 KiB blocks only with multiples that reach 64 KiB
            const size_t B = BL[first_big + (idx + j * 5) % nb];
            const size_t qmax = std::min<size_t>(8, (1u << 20) / B);
            size_t q = 1 + (idx / nb + j) % qmax;
            while (q * B < 65535) ++q;
            const long d = scale::nudge(r);
            const size_t L = std::min<size_t>((1u << 20) + 9, static_cast<size_t>(static_cast<long>(q * B) + d));
            g_op = op.name;
            Big big;
            {
                va::HarnessScope hs;
                make_big(big, r, shape, L);
            }
            g_variant = sfmt("scale shape=%u (%s) length=%zu*%zu%+ld target=%zu argument=%zu list=%zu stream: held %zu, %s, keeps %zu, appended in pieces of %zu; histories %u%u%u%u%u%u", shape,
                             shape == 0 ? "target as long as the argument" : shape == 1 ? "both big" : shape == 2 ? "short target, big argument" : "big target, short argument", q, B, d,
                             big.sv[0].size(), big.sv[1].size(), big.sv[2].size(), big.stream_history.size(), big.cut == 0 ? "whole" : big.cut == 1 ? "truncate()" : big.cut == 2 ? "truncate(n)" : "erase(n)",
                             big.cut == 0 ? big.stream_history.size() : big.keep, big.chunk, big.hist[0], big.hist[1], big.hist[2], big.hist[3], big.hist[4], big.hist[5]);
            const size_t saved_cap = va::reg().scope_cap;
            va::reg().scope_cap = static_cast<size_t>(768) << 20;      // the fixtures are legitimately big
            const uint64_t inj0 = vrt::counter("faults.injected");
            size_t room = 0, cap = 0;
            const uint64_t n = enumerate_faults(op, [&](Fix &f) { f.setup_scale(big); room = f.stream_room; cap = f.stream_cap; }, 48, r);
            va::reg().scope_cap = saved_cap;
            (void)room;
            const uint64_t injected = vrt::counter("faults.injected") - inj0;
            vrt::count("scale.cases");
            vrt::count("scale.faults.injected", injected);
            if (g_max_request >= 65536) vrt::count("scale.faults.in_calls_allocating>=64KiB", injected);
            if (idx < all_ops.size()) vrt::count("scale.ops_covered");
            if (op.scale_only) vrt::count("scale.cases.scale_only_operations");
            vrt::count(sfmt("scale.shape.%u", shape));
            vrt::count(sfmt("scale.allocs_per_call.%s", n == 0 ? "0" : n == 1 ? "1" : n <= 3 ? "2-3" : n <= 48 ? "4-48" : "49+"));
            if (shape == 0) vrt::count("scale.target_same_size_as_argument");
            if (L >= 524288) vrt::count("scale.fixture>=512KiB");
            if (cap >= 65536 && big.cut != 0 && big.keep <= 256 && strstr(op.name, "stream") && injected > 0) vrt::count("scale.stream.cut_back_then_grown_under_fault");
            vrt::distinct(vrt::fnv_u64(r.next(), vrt::fnv_str(op.name, shape + 977)));
            if (vrt::want_sample("scale") && n > 1) vrt::sample("scale", sfmt("%s, %s: %llu allocations, each failed once", op.name, g_variant.c_str(), static_cast<unsigned long long>(n)));
        });
    }

    // same_storage: the whole table again on target objects that were COPY-constructed (or moved / move-assigned from such a
    // copy) into storage that was not zero beforehand - 0x5A, 0xFF, random bytes, the remains of an object of the same type
    // that lived at that address and was destroyed (its heap block, of the same size, is offered to the successor) - and that
    // are mostly in heap mode; about half of all fixture objects start 8 bytes into their block (8 mod 16).  The copy
    // constructor from a long source never writes the in-object array, so for these targets it holds what the storage held:
    // after an injected failure an "empty" target must still read as empty through c_str() / data() (terminator at [size()]).
    {
        vrt::require("same_storage.cases", 500);
        vrt::require("same_storage.ops_covered", ops.size());
        vrt::require("same_storage.faults.injected", 1500);
        vrt::require("same_storage.faults.long_targets_copied_into_nonzero_storage", 500);
        vrt::require("same_storage.objects_at_8_mod_16", 5000);
        vrt::require("same_storage.successor_heap_block_at_the_address_of_the_predecessor's", 50);
        const size_t rounds = vrt::tier_count(8, 64);
        vrt::phase("same_storage", ops.size() * rounds, [&](uint64_t idx, Rng &r) {
            const size_t i = idx % ops.size();
            const Op &op = ops[i];
            const uint64_t j = idx / ops.size();
            const bool lt = j % 8 != 7, la = j % 8 != 6;          // mostly both in heap mode
            unsigned origin[7];
            for (unsigned &o : origin) o = r.chance(1, 8) ? OR_DIRECT : 1 + static_cast<unsigned>(r.below(N_ORIGIN - 1));
            const unsigned fill = static_cast<unsigned>((i + j + j / 8) % N_FILL);
            const unsigned at8 = j % 4 == 0 ? 0xffffu : j % 4 == 1 ? 0u : static_cast<unsigned>(r.next() & 0xffff);
            g_op = op.name;
            g_variant = sfmt("same_storage target=%s argument=%s; storage before: %s; objects 8 bytes into their block: mask %04x; origins of the targets %c%c%c%c%c%c%c (d direct, c copy, m copy then moved, a move-assigned from a copy, C copy of a copy) filling #%llu",
                             lt ? "long" : "short", la ? "long" : "short", fill_names[fill], at8, origin_letters[origin[0]], origin_letters[origin[1]], origin_letters[origin[2]], origin_letters[origin[3]],
                             origin_letters[origin[4]], origin_letters[origin[5]], origin_letters[origin[6]], static_cast<unsigned long long>(j));
            const uint64_t fixseed = r.next();
            g_place = Place();
            g_place.on = true;
            g_place.fill = fill;
            g_place.at8mask = at8;
            const uint64_t inj0 = vrt::counter("faults.injected");
            const uint64_t n = enumerate_faults(op, [&](Fix &f) { Rng fr(fixseed); g_place.made = 0; g_place.rng.reseed(fixseed ^ 0x5a5a5a5aull); f.setup(fr, lt, la, origin); }, UINT64_MAX, r);
            const Place done = g_place;
            g_place = Place();
            const uint64_t injected = vrt::counter("faults.injected") - inj0;
            vrt::count("same_storage.cases");
            vrt::count("same_storage.faults.injected", injected);
            vrt::count(sfmt("same_storage.storage_before.%u", fill));
            if (lt && la && (fill == F_5A || fill == F_FF || fill == F_RANDOM_NONZERO || fill == F_SHORT_PREDECESSOR || fill == F_LONG_PREDECESSOR))
                vrt::count("same_storage.faults.long_targets_copied_into_nonzero_storage", injected);
            vrt::count("same_storage.objects", done.n_objects);
            vrt::count("same_storage.objects_at_8_mod_16", done.n_at8);
            vrt::count("same_storage.successor_heap_block_offered", done.n_pred_blocks);
            vrt::count("same_storage.successor_heap_block_at_the_address_of_the_predecessor's", done.n_pred_block_reused);
            if (idx < ops.size()) vrt::count("same_storage.ops_covered");
            vrt::distinct(vrt::fnv_u64(fixseed, vrt::fnv_str(op.name, j + 3301)));
            if (vrt::want_sample("same_storage") && n > 1 && lt && la) vrt::sample("same_storage", sfmt("%s, %s: %llu allocations, each failed once", op.name, g_variant.c_str(), static_cast<unsigned long long>(n)));
        });
    }

    // soak: 70000 consecutive calls per case on the same eleven long-lived objects (copies living in storage that was not zero,
    // some 8 bytes into their block), two calls in three with an injected failure of its first, second or third
    // allocation; every target is compared with an exact model after every call and all objects every 64 calls.  Runs of
    // 64..300 identical calls without a failure are followed directly by the same call with one.
    {
        vrt::require("soak.calls", 16 * 70000);
        vrt::require("soak.faults.injected", 100000);
        vrt::require("soak.target_left_empty_by_a_failed_call", 20000);
        vrt::require("soak.target_kept_its_value_through_a_failed_call", 2000);
        vrt::require("soak.successor_constructed_where_its_predecessor_was", 10000);
        vrt::require("soak.successor_heap_block_where_its_predecessor's_was", 300);
        vrt::require("soak.dull_runs_followed_by_a_failing_call", 300);
        vrt::phase("soak", vrt::tier_count(16, 128), [&](uint64_t idx, Rng &r) {
            SoakTally tally;
            g_tally = &tally;
            const size_t base = va::reg().live_lib;
            unsigned origin[7];
            for (unsigned &o : origin) o = r.chance(1, 8) ? OR_DIRECT : 1 + static_cast<unsigned>(r.below(N_ORIGIN - 1));
            g_place = Place();
            g_place.on = true;
            g_place.fill = static_cast<unsigned>(idx % N_FILL);
            g_place.at8mask = static_cast<unsigned>(r.next() & 0xffff);
            g_place.rng.reseed(r.next());
            const size_t steps = 70000;
            char where[160];
            {
                Fix f;
                {
                    va::LibScope ls;
                    Rng fr(r.next());
                    f.setup(fr, true, true, origin);
                }
                vrt::cur_printf("soak case #%llu: %zu calls, storage before: %s\n", static_cast<unsigned long long>(idx), steps, fill_names[g_place.fill]);
                bool alive = true;
                for (size_t step = 0; step < steps && alive; ++step) {
                    snprintf(where, sizeof(where), "soak case #%llu (objects copied into storage that held: %s), call %zu", static_cast<unsigned long long>(idx), fill_names[g_place.fill], step);
                    g_variant = where;
                    if (r.chance(1, 1000)) {
                        // a run of identical calls that complete, then the same call with its allocation failing
                        const size_t run = 64 + r.below(237), n = 40 + r.below(260);
                        const unsigned which = static_cast<unsigned>(r.below(3));
                        ++tally.dull_runs;
                        if (which == 0) {
                            std::string val(n, 'd'), prev;
                            const ST::char_buffer src(val.data(), n);
                            g_op = "soak: char_buffer=char_buffer";
                            for (size_t q = 0; q <= run && alive; ++q) { prev = f.cbv; const bool done = soak_call(q == run ? 1 : 0, [&] { *f.cb = src; }); alive = soak_settle_buffer<char>(f, "char_buffer", f.cb, f.cbv, prev, val, done); }
                        } else if (which == 1) {
                            const S val = soak_text(r, n);
                            const ST::string src = ST::string::from_validated(val.data(), n);
                            g_op = "soak: string=string";
                            for (size_t q = 0; q <= run && alive; ++q) {
                                const S prev = f.sv[0];
                                const bool done = soak_call(q == run ? 1 : 0, [&] { *f.s[0] = src; });
                                va::HarnessScope hs;
                                f.check_string("target string", f.s[0], done ? val : prev);
                                alive = f.s[0].p != nullptr;
                                if (!alive) break;
                                const S now(f.s[0]->c_str(), f.s[0]->size());
                                if (done && now != val) fail("wrong-value-without-a-fault", "target string after a run of identical assignments");
                                if (!done) ++(now.empty() && !prev.empty() ? tally.left_empty : tally.left_previous);
                                f.sv[0] = now;
                            }
                        } else {
                            g_op = "soak: stream.append_char(c,n)";
                            f.stream_prefix_ok = false;
                            f.stream_moved = false;
                            for (size_t q = 0; q <= run && alive; ++q) {
                                const S prev = f.ssv;
                                // the last one needs more room than any block the stream can have by now
                                const size_t cnt = q == run ? 2 * f.ssv.size() + 600 : 1;
                                const bool done = soak_call(q == run ? 1 : 0, [&] { f.ss->append_char('d', cnt); });
                                va::HarnessScope hs;
                                f.ssv = done ? prev + S(cnt, 'd') : prev;
                                f.check_stream();
                                alive = f.ss.p != nullptr;
                                if (!alive) break;
                                const S now(f.ss->raw_buffer(), f.ss->size());
                                if (done && now != f.ssv) fail("wrong-value-without-a-fault", "the stream after a run of identical appends");
                                if (!done) ++(now.empty() && !prev.empty() ? tally.left_empty : tally.left_previous);
                                f.ssv = now;
                            }
                        }
                        step += run;
                        continue;
                    }
                    const int64_t k = r.chance(1, 3) ? 0 : 1 + static_cast<int64_t>(r.below(3));
                    const unsigned family = static_cast<unsigned>(r.below(7));
                    ++tally.by_family[family];
                    switch (family) {
                    case 0: alive = soak_buffer<char>(f, "char_buffer", f.cb, f.cbv, r, k); break;
                    case 1: alive = soak_buffer<char16_t>(f, "utf16_buffer", f.b16, f.b16v, r, k); break;
                    case 2: alive = soak_buffer<char32_t>(f, "utf32_buffer", f.b32, f.b32v, r, k); break;
                    case 3: alive = soak_buffer<wchar_t>(f, "wchar_buffer", f.bw, f.bwv, r, k); break;
                    case 4: alive = soak_string(f, r, k); break;
                    case 5: alive = soak_stream(f, r, k); break;
                    default: soak_no_target(f, r, k); break;
                    }
                    if (step % 64 == 63) { f.check_all(); alive = alive && f.all_alive(); }
                }
                f.check_all();
                f.teardown();
            }
            if (va::reg().live_lib != base) {
                g_op = "soak";
                fail("leak", sfmt("%zu library allocations survive the destruction of every object involved", va::reg().live_lib - base));
                va::reg().live_lib = base;
            }
            va::check_pairing("oom");
            const Place placed = g_place;
            g_place = Place();
            g_tally = nullptr;
            vrt::count("soak.cases");
            vrt::count("soak.calls", tally.calls);
            vrt::count("soak.calls.completed", tally.completed);
            vrt::count("soak.faults.injected", tally.injected);
            vrt::count("soak.target_left_empty_by_a_failed_call", tally.left_empty);
            vrt::count("soak.target_kept_its_value_through_a_failed_call", tally.left_previous);
            vrt::count("soak.successor_constructed_where_its_predecessor_was", tally.successors_at_same_address);
            vrt::count("soak.successor_heap_block_where_its_predecessor's_was", tally.successor_blocks_at_same_address);
            vrt::count("soak.dull_runs_followed_by_a_failing_call", tally.dull_runs);
            vrt::count("soak.objects_at_8_mod_16", placed.n_at8);
            static const char *const families[] = {"char_buffer", "utf16_buffer", "utf32_buffer", "wchar_buffer", "string", "string_stream", "no_target"};
            for (int q = 0; q < 7; ++q) vrt::count(sfmt("soak.calls.%s", families[q]), tally.by_family[q]);
            vrt::distinct(vrt::fnv_u64(idx, vrt::fnv_u64(r.next(), 3307)));
            vrt::sample("soak", sfmt("case #%llu: %llu consecutive calls on the same objects (copies in storage that held: %s), %llu with an injected allocation failure (%llu left the target empty, %llu left it as it was), %llu completed",
                                     static_cast<unsigned long long>(idx), static_cast<unsigned long long>(tally.calls), fill_names[placed.fill], static_cast<unsigned long long>(tally.injected),
                                     static_cast<unsigned long long>(tally.left_empty), static_cast<unsigned long long>(tally.left_previous), static_cast<unsigned long long>(tally.completed)));
        });
    }
}

VRT_MAIN(body)
