#!/usr/bin/env python3
"""tools/intake.py <list-file> [<root>] [ids...]
Each line of the list file:  <worktree-name> <subdir> <seed-id> <property> <checks,comma-separated> | <what it needs to manifest>
Candidate changes live in <root>/<worktree-name>/out/<subdir>/ (patch.diff, demo.cpp, README.md).
Every candidate is vetted (tools/vet_mutant.sh: unit tests green with the change, demo fails with it and passes without it)
and, if that holds, kept under seeded/<seed-id>/ and run against the listed checks (tools/try_mutant_wt.sh)."""
import concurrent.futures, json, os, re, shutil, subprocess, sys, time
VERIF = os.path.dirname(os.path.dirname(os.path.abspath(__file__)))
listf = sys.argv[1]
root = sys.argv[2] if len(sys.argv) > 2 else os.path.dirname(os.path.abspath(listf))
only = sys.argv[3:]
rows = []
for l in open(listf):
    if not l.strip() or l.startswith("#"):
        continue
    head, needs = l.strip().split(" | ", 1)
    wt, sub, sid, prop, checks = head.split()
    if only and sid not in only:
        continue
    rows.append((wt, sub, sid, prop, checks.split(","), needs))


def vet(r):
    src = os.path.join(root, r[0], "out", r[1])
    env = dict(os.environ)
    if r[0] == "C20" or r[3] == "C20":
        env["VET_SAN"] = "thread"
    p = subprocess.run([os.path.join(VERIF, "tools", "vet_mutant.sh"), src], capture_output=True, text=True, env=env)
    out = (p.stdout + p.stderr).strip().split("\n")
    return p.returncode == 0, [x for x in out if x.startswith("VET:")]


def try_check(patch, prop, tier="quick"):
    t0 = time.time()
    r = subprocess.run([os.path.join(VERIF, "tools", "try_mutant_wt.sh"), patch, prop, tier], capture_output=True, text=True)
    keys = re.findall(r"violation key: (.*)", r.stdout)
    m = re.search(r"try_mutant: \S+ rc=(\d+)", r.stdout)
    rc = int(m.group(1)) if m else -1
    return {"check": prop, "tier": tier, "exit": rc, "caught": rc == 1, "violation_keys": keys[:8], "wall_s": round(time.time() - t0, 1),
            "how": "tools/try_mutant_wt.sh (patch applied to a scratch worktree of /repo HEAD, check run with VERIF_REPO pointing at it)"}


def one(r):
    wt, sub, sid, prop, checks, needs = r
    ok, vetlines = vet(r)
    if not ok:
        return sid, None, vetlines
    src = os.path.join(root, wt, "out", sub)
    dst = os.path.join(VERIF, "seeded", sid)
    os.makedirs(dst, exist_ok=True)
    for f in ("patch.diff", "demo.cpp", "README.md"):
        if os.path.exists(os.path.join(src, f)):
            shutil.copy(os.path.join(src, f), os.path.join(dst, f))
    results = [try_check(os.path.join(dst, "patch.diff"), c) for c in checks]
    meta = {"id": sid, "breaks_property": prop,
            "origin": "independent sub-agent given only the text of property %s and a scratch worktree" % wt,
            "needs_to_manifest": needs,
            "confirmed": {"how": "tools/vet_mutant.sh in a scratch worktree under /tmp (removed afterwards)", "result": vetlines},
            "checks_run": results, "caught_by": [x["check"] for x in results if x["caught"]]}
    json.dump(meta, open(os.path.join(dst, "meta.json"), "w"), indent=1)
    return sid, results, vetlines


with concurrent.futures.ThreadPoolExecutor(max_workers=int(os.environ.get("MUTANT_JOBS", "4"))) as ex:
    for sid, results, vetlines in ex.map(one, rows):
        if results is None:
            print(sid, "NOT KEPT (vetting failed)", vetlines, flush=True)
        else:
            print(sid, [(x["check"], "CAUGHT" if x["caught"] else "MISSED rc=%d" % x["exit"], x["violation_keys"][:2]) for x in results], flush=True)
