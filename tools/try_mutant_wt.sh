#!/bin/sh
# usage: try_mutant_wt.sh <patch.diff> <prop> [tier]
# Like try_mutant.sh, but leaves /repo alone: the change is applied to a scratch git worktree of /repo's HEAD under
# /tmp, the registered check runs against that tree (VERIF_REPO), its evidence and replays go to a scratch directory,
# and everything is removed afterwards.  Several of these can run side by side.
P="$(cd "$(dirname "$1")" && pwd)/$(basename "$1")"
PROP="$2"; TIER="${3:-quick}"
WT=/tmp/tmw.$$
git -C /repo worktree add --detach $WT HEAD >/dev/null 2>&1 || { echo "cannot create worktree"; exit 2; }
cleanup() { git -C /repo worktree remove --force $WT >/dev/null 2>&1; rm -rf $WT $WT.out; }
trap cleanup EXIT
git -C $WT apply "$P" || { echo "patch does not apply"; exit 2; }
mkdir -p $WT.out
cd /verif && VERIF_LOCK_HELD=1 VERIF_REPO=$WT VERIF_EVIDENCE_DIR=$WT.out VERIF_REPLAY_DIR=$WT.out ./check $PROP --tier $TIER ${VERIF_WORKERS:+--workers $VERIF_WORKERS} > $WT.out/log 2>&1; RC=$?
grep -E "violation key|VIOLATION|HELD|INCONCLUSIVE|HARNESS|KNOWN" $WT.out/log | head -12
echo "try_mutant: $PROP rc=$RC"
exit $RC
