#!/usr/bin/env python3
"""tools/automut.py [--n N] [--seed S] [--jobs J] [--files a.h,b.h] [--out FILE]   - development aid, not a registered check.

Mechanical mutation analysis of the checks: makes N single-token changes to the library headers (relational operator
swapped, +-1 on a constant, && <-> ||, a statement dropped, ...), each in its own scratch copy of /repo under /tmp, runs
the quick checks that exercise that header (stopping at the first one that reports a violation) and lists the changes
that NO check noticed.  Survivors are either equivalent / harmless changes or blind spots of the workloads and
oracles - they are read by hand.  Nothing here touches /repo, and nothing it finds is a verdict about the library.
"""
import argparse, concurrent.futures, json, os, random, re, shutil, subprocess, sys, time

VERIF = os.path.dirname(os.path.dirname(os.path.abspath(__file__)))
REPO = "/repo"
CHECKS = {
    "st_utf_conv_priv.h": ["C02", "C03", "C01"],
    "st_utf_conv.h": ["C03", "C01", "C02"],
    "st_charbuffer.h": ["C05", "C06", "C04", "C19"],
    "st_string_priv.h": ["C07", "C06", "C09", "C08", "C12", "C13"],
    "st_codecs.h": ["C15", "C14"],
    "st_codecs_priv.h": ["C15", "C14"],
    "st_format.h": ["C11", "C10", "C17"],
    "st_format_priv.h": ["C11", "C12", "C13", "C10"],
    "st_format_numeric.h": ["C13", "C12", "C16"],
    "st_formatter.h": ["C11", "C10", "C13", "C12", "C17"],
    "st_stringstream.h": ["C16", "C12", "C13", "C18", "C19"],
    "st_iostream.h": ["C17", "C19"],
    "st_stdio.h": ["C17"],
    "st_string.h": ["C08", "C07", "C09", "C06", "C04", "C12", "C13", "C01", "C03", "C18", "C19"],
}
OPS = [
    (r"(?<![<>=!\-+*/&|])<=(?!=)", "<"), (r"(?<![<>=!\-+*/&|<])<(?![<=])", "<="),
    (r"(?<![<>=!\-+*/&|])>=(?!=)", ">"), (r"(?<![<>=!\-+*/&|>\-])>(?![>=])", ">="),
    (r"==", "!="), (r"!=", "=="), (r"&&", "||"), (r"\|\|", "&&"),
    (r"\+ 1\b", "+ 0"), (r"- 1\b", "- 0"), (r"\+ 1\b", "+ 2"), (r"\+\+", "--"),
    (r"\b0x80\b", "0x81"), (r"\b0x7F\b", "0x7E"), (r"\b0xC0\b", "0xC1"), (r"\b0x3F\b", "0x1F"), (r"\b0x10FFFF\b", "0x10FFFE"),
    (r"\b0x10000\b", "0x10001"), (r"\b0xD800\b", "0xD801"), (r"\b0xDFFF\b", "0xDFFE"), (r"\b0xDC00\b", "0xDC01"), (r"\b0x7FF\b", "0x7FE"), (r"\b0xFFFF\b", "0xFFFE"),
    (r"\bsize_t\b(?=\s+\w+\s*=)", "unsigned"), (r"\btrue\b", "false"), (r"\bfalse\b", "true"),
    (r"<<", ">>"), (r">> (\d+)", lambda m: ">> %d" % (int(m.group(1)) + 1)), (r" & ", " | "), (r" \| ", " & "),
    (r"\bbreak;", "/*break*/;"), (r"\bcontinue;", "break;"),
]
DROP = re.compile(r"^\s+(?!return\b|if\b|else\b|for\b|while\b|case\b|default\b|break\b|throw\b|const\b|auto\b|[A-Za-z_:<>]+\s+[A-Za-z_]+\s*[=;(])[A-Za-z_*(][^{}]*;\s*$")


def candidates(files):
    out = []
    for fn in files:
        lines = open(os.path.join(REPO, "include", fn), errors="replace").read().split("\n")
        in_block_comment = False
        for i, ln in enumerate(lines):
            st = ln.strip()
            if st.startswith("/*"):
                in_block_comment = "*/" not in st
                continue
            if in_block_comment:
                in_block_comment = "*/" not in st
                continue
            if not st or st.startswith("//") or st.startswith("#") or st.startswith("*") or "ST_ASSERT" in st or "static_assert" in st:
                continue
            if i < 20 or "template" in st or st.startswith("namespace") or "operator" in st and "(" not in st:
                continue
            code = ln.split("//")[0]
            if '"' in code and ("throw" in code or "ST_ASSERT" in code):
                continue
            for k, (pat, rep) in enumerate(OPS):
                for m in re.finditer(pat, code):
                    if "template" in code or "#include" in code:
                        continue
                    # skip template angle brackets / includes heuristically
                    if pat.startswith("(?<![<>=!") and re.search(r"(static_cast|reinterpret_cast|const_cast|std::\w+|buffer|vector|basic_\w+|typename|enable_if|is_\w+)\s*<[^;]*$", code[:m.end()]) :
                        continue
                    new = code[:m.start()] + (rep(m) if callable(rep) else rep) + code[m.end():]
                    out.append((fn, i, "op%d" % k, ln, new + ln[len(code):]))
            if DROP.match(code) and "(" in code or re.match(r"^\s+[\w\[\]>.\-*]+\s*[+\-|&]?=\s*[^=].*;\s*$", code):
                out.append((fn, i, "drop", ln, re.match(r"^\s*", ln).group(0) + "/* dropped */;"))
    return out


def run_one(idx, mut, keep_dir):
    fn, line, kind, old, new = mut
    d = "/tmp/am/%d" % idx
    shutil.rmtree(d, ignore_errors=True)
    os.makedirs(d)
    shutil.copytree(os.path.join(REPO, "include"), os.path.join(d, "include"))
    shutil.copy(os.path.join(REPO, "CMakeLists.txt"), d)
    p = os.path.join(d, "include", fn)
    lines = open(p, errors="replace").read().split("\n")
    assert lines[line] == old
    lines[line] = new
    open(p, "w").write("\n".join(lines))
    res = {"file": fn, "line": line + 1, "kind": kind, "old": old.strip(), "new": new.strip(), "checks": []}
    env = dict(os.environ, VERIF_LOCK_HELD="1", VERIF_REPO=d, VERIF_EVIDENCE_DIR=d + "/ev", VERIF_REPLAY_DIR=d + "/ev")
    killed = None
    for c in CHECKS[fn]:
        t0 = time.time()
        r = subprocess.run([os.path.join(VERIF, "check"), c, "--tier", "quick", "--workers", "8"], capture_output=True, text=True, env=env, cwd=VERIF)
        keys = re.findall(r"violation key: (.*)", r.stdout)
        res["checks"].append({"check": c, "rc": r.returncode, "keys": keys[:3], "s": round(time.time() - t0)})
        if r.returncode == 2 and "compile of" in r.stdout:
            res["status"] = "does-not-compile"
            break
        if r.returncode == 1:
            killed = c
            break
    if "status" not in res:
        res["status"] = ("killed:" + killed) if killed else "SURVIVED"
    shutil.rmtree(d, ignore_errors=True)
    return res


def main():
    ap = argparse.ArgumentParser()
    ap.add_argument("--n", type=int, default=100)
    ap.add_argument("--seed", type=int, default=1)
    ap.add_argument("--jobs", type=int, default=4)
    ap.add_argument("--files", default=",".join(CHECKS))
    ap.add_argument("--out", default="/tmp/am/results.jsonl")
    ap.add_argument("--list", action="store_true")
    a = ap.parse_args()
    cands = candidates(a.files.split(","))
    rnd = random.Random(a.seed)
    rnd.shuffle(cands)
    if a.list:
        for c in cands[:a.n]:
            print(c[0], c[1] + 1, c[2], "|", c[3].strip(), "=>", c[4].strip())
        print(len(cands), "candidates")
        return
    os.makedirs("/tmp/am", exist_ok=True)
    picked = cands[:a.n]
    with open(a.out, "a") as out, concurrent.futures.ThreadPoolExecutor(max_workers=a.jobs) as ex:
        futs = [ex.submit(run_one, a.seed * 100000 + i, m, False) for i, m in enumerate(picked)]
        for f in concurrent.futures.as_completed(futs):
            r = f.result()
            out.write(json.dumps(r) + "\n")
            out.flush()
            print("%-18s %-22s %s:%d  %s  =>  %s" % (r["status"], r["kind"], r["file"], r["line"], r["old"][:70], r["new"][:70]), flush=True)


if __name__ == "__main__":
    main()
