#!/usr/bin/env python3
"""tools/mutant.py add <srcdir> <seed-id> <property> [--checks C07,C08] [--needs TEXT]
   tools/mutant.py rerun [<seed-id> ...]       re-run the registered checks against kept mutants

`add` vets a candidate change (patch.diff + demo.cpp [+ README.md]) in a scratch
worktree (unit tests still green, demo fails with it and passes without it),
runs the given checks against it on /repo's working tree (undone straight
afterwards), and keeps it under /verif/seeded/<seed-id>/ with a meta.json.
"""
import json
import os
import re
import shutil
import subprocess
import sys
import time

VERIF = os.path.dirname(os.path.dirname(os.path.abspath(__file__)))


def sh(cmd, **kw):
    return subprocess.run(cmd, shell=True, capture_output=True, text=True, **kw)


def vet(d):
    r = sh("%s/tools/vet_mutant.sh %s" % (VERIF, d))
    out = (r.stdout + r.stderr).strip().split("\n")
    return r.returncode == 0, [l for l in out if l.startswith("VET:")]


def try_check(patch, prop, tier="quick"):
    t0 = time.time()
    # the change is applied to a scratch worktree of /repo's HEAD and the registered check runs against that tree
    # (tools/try_mutant_wt.sh); tools/try_mutant.sh does the same on /repo's own working tree, one at a time
    r = sh("%s/tools/try_mutant_wt.sh %s %s %s" % (VERIF, patch, prop, tier))
    keys = re.findall(r"violation key: (.*)", r.stdout)
    m = re.search(r"try_mutant: \S+ rc=(\d+)", r.stdout)
    rc = int(m.group(1)) if m else -1
    return {"check": prop, "tier": tier, "exit": rc, "caught": rc == 1, "violation_keys": keys[:8],
            "wall_s": round(time.time() - t0, 1),
            "how": "tools/try_mutant_wt.sh (patch applied to a scratch worktree of /repo HEAD, check run with VERIF_REPO pointing at it)"}


def add(args):
    src, sid, prop = args[0], args[1], args[2]
    checks = [prop]
    needs = None
    i = 3
    while i < len(args):
        if args[i] == "--checks":
            checks = args[i + 1].split(",")
            i += 2
        elif args[i] == "--needs":
            needs = args[i + 1]
            i += 2
        else:
            raise SystemExit("bad arg " + args[i])
    ok, vetlines = vet(src)
    print("\n".join(vetlines))
    if not ok:
        print("NOT KEPT: vetting failed")
        return 1
    dst = os.path.join(VERIF, "seeded", sid)
    os.makedirs(dst, exist_ok=True)
    for f in ("patch.diff", "demo.cpp", "README.md"):
        if os.path.exists(os.path.join(src, f)):
            shutil.copy(os.path.join(src, f), os.path.join(dst, f))
    results = [try_check(os.path.join(dst, "patch.diff"), c) for c in checks]
    readme = ""
    if os.path.exists(os.path.join(dst, "README.md")):
        readme = open(os.path.join(dst, "README.md")).read()
    meta = {
        "id": sid, "breaks_property": prop,
        "origin": "independent sub-agent given only the property text and a scratch worktree",
        "needs_to_manifest": needs or "see README.md",
        "confirmed": {"how": "tools/vet_mutant.sh in a scratch worktree under /tmp (removed afterwards)",
                      "result": vetlines},
        "checks_run": results,
        "caught_by": [r["check"] for r in results if r["caught"]],
    }
    with open(os.path.join(dst, "meta.json"), "w") as f:
        json.dump(meta, f, indent=1)
        f.write("\n")
    for r in results:
        print("  %s: %s %s" % (r["check"], "CAUGHT" if r["caught"] else "MISSED (exit %d)" % r["exit"], r["violation_keys"][:2]))
    return 0


def rerun(ids):
    import concurrent.futures
    base = os.path.join(VERIF, "seeded")
    ids = ids or sorted(os.listdir(base))

    def one(sid):
        mp = os.path.join(base, sid, "meta.json")
        if not os.path.exists(mp):
            return sid, None
        meta = json.load(open(mp))
        checks = [r["check"] for r in meta.get("checks_run", [])] or [meta["breaks_property"]]
        # "tier_for": {"C06": "thorough"} in meta.json: the change needs something only the thorough tier runs
        results = [try_check(os.path.join(base, sid, "patch.diff"), c, meta.get("tier_for", {}).get(c, "quick")) for c in checks]
        meta["checks_run"] = results
        meta["caught_by"] = [r["check"] for r in results if r["caught"]]
        with open(mp, "w") as f:
            json.dump(meta, f, indent=1)
            f.write("\n")
        return sid, meta
    with concurrent.futures.ThreadPoolExecutor(max_workers=int(os.environ.get("MUTANT_JOBS", "4"))) as ex:
        for sid, meta in ex.map(one, ids):
            if meta:
                missed = [r["check"] + ("(rc=%d)" % r["exit"]) for r in meta["checks_run"] if not r["caught"]]
                print("%s: caught_by=%s%s" % (sid, meta["caught_by"], ("  NOT caught by " + ",".join(missed)) if missed else ""), flush=True)
    return 0


if __name__ == "__main__":
    if len(sys.argv) < 2:
        raise SystemExit(__doc__)
    sys.exit(add(sys.argv[2:]) if sys.argv[1] == "add" else rerun(sys.argv[2:]))
