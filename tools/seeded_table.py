#!/usr/bin/env python3
"""Prints the markdown table of kept seeded changes (for DESIGN.md section 9) from seeded/*/meta.json."""
import glob, json, os
rows = []
for mp in sorted(glob.glob(os.path.join(os.path.dirname(os.path.dirname(os.path.abspath(__file__))), "seeded", "*", "meta.json"))):
    m = json.load(open(mp))
    res = []
    for r in m.get("checks_run", []):
        res.append("%s%s: %s" % (r["check"], " (thorough tier)" if r.get("tier") == "thorough" else "", "caught (%s)" % (r["violation_keys"][0] if r["violation_keys"] else "exit 1") if r["caught"] else "not caught"))
    rows.append((m["id"], m["breaks_property"], m.get("needs_to_manifest", "").replace("|", "/"), "; ".join(res).replace("|", "/")))
print("| seeded change | breaks | needs, in order to manifest | checks run against it (quick tier) |")
print("|---|---|---|---|")
for r in rows:
    print("| `%s` | %s | %s | %s |" % r)
print()
print("%d seeded changes kept; %d caught by the check of the property they break." % (
    len(rows), sum(1 for mp in glob.glob("/verif/seeded/*/meta.json") if json.load(open(mp))["breaks_property"] in json.load(open(mp))["caught_by"])))
