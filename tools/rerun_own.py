#!/usr/bin/env python3
"""tools/rerun_own.py <file with lines "<seed-id> <check>"> : re-runs one check against each listed kept change
(tools/try_mutant_wt.sh) and replaces that check's entry in seeded/<id>/meta.json."""
import concurrent.futures, json, os, sys
sys.path.insert(0, os.path.dirname(os.path.abspath(__file__)))
from mutant import try_check, VERIF
rows = [l.split() for l in open(sys.argv[1]) if l.strip()]


def one(row):
    sid, chk = row[0], row[1]
    mp = os.path.join(VERIF, "seeded", sid, "meta.json")
    meta = json.load(open(mp))
    tier = meta.get("tier_for", {}).get(chk, "quick")
    r = try_check(os.path.join(VERIF, "seeded", sid, "patch.diff"), chk, tier)
    runs = [x for x in meta.get("checks_run", []) if x["check"] != chk]
    runs.insert(0, r)
    meta["checks_run"] = runs
    meta["caught_by"] = [x["check"] for x in runs if x["caught"]]
    json.dump(meta, open(mp, "w"), indent=1)
    return sid, chk, r


with concurrent.futures.ThreadPoolExecutor(max_workers=int(os.environ.get("MUTANT_JOBS", "3"))) as ex:
    for sid, chk, r in ex.map(one, rows):
        print(sid, chk, "CAUGHT" if r["caught"] else "MISSED rc=%d" % r["exit"], r["violation_keys"][:2], flush=True)
