#!/bin/sh
# usage: run_all.sh [tier] [props...]  - runs the registered checks one after another on /repo as it is
TIER="${1:-quick}"; shift 2>/dev/null
cd "$(dirname "$0")/.."
PROPS="$@"
[ -z "$PROPS" ] && PROPS=$(python3 -c "
import json
print(' '.join(c['property_id'] for c in json.load(open('MANIFEST.json'))['checks']))")
for p in $PROPS; do
  S=$(date +%s)
  OUT=$(./check $p --tier $TIER 2>&1); RC=$?
  E=$(date +%s)
  echo "$p rc=$RC $((E-S))s  $(echo "$OUT" | grep -E 'HELD|VIOLATION|INCONCLUSIVE|HARNESS|KNOWN' | head -3 | tr '\n' ' ')"
done
