#!/bin/sh
# usage: try_mutant.sh <patch.diff> <prop> [tier]
# Applies the change to /repo's working tree, runs the registered check, and
# undoes it straight afterwards.  Never commits anything in /repo.
P="$(cd "$(dirname "$1")" && pwd)/$(basename "$1")"
PROP="$2"; TIER="${3:-quick}"
mkdir -p /verif/.build
if [ -z "$VERIF_LOCK_HELD" ]; then
  VERIF_LOCK_HELD=1 exec flock -x /verif/.build/repo.lock "$0" "$@"
fi
[ -z "$(git -C /repo status --porcelain --untracked-files=no)" ] || { echo "repo not clean"; exit 2; }
git -C /repo apply "$P" || { echo "patch does not apply"; exit 2; }
# evidence committed in /verif must come from the unchanged tree: keep it aside
cp /verif/evidence/$PROP.json /tmp/try.$$.ev 2>/dev/null
cd /verif && ./check $PROP --tier $TIER > /tmp/try.$$.log 2>&1; RC=$?
git -C /repo checkout -- .
[ -f /tmp/try.$$.ev ] && mv /tmp/try.$$.ev /verif/evidence/$PROP.json
grep -E "violation key|VIOLATION|HELD|INCONCLUSIVE|HARNESS|KNOWN" /tmp/try.$$.log | head -12
echo "try_mutant: $PROP rc=$RC"
rm -f /tmp/try.$$.log /verif/replays/*.json
exit $RC
