#!/usr/bin/env python3
"""tools/coverage.py [Cnn ...]  - development aid, not a registered check.

Compiles each harness (and the repository's own unit tests) with gcov
instrumentation into a scratch directory under /tmp, runs the quick workload,
and reports, per library header, the lines that some build considers
executable but that no harness run executed - the blind spots of the workloads.
"""
import glob, gzip, json, os, shutil, subprocess, sys
sys.path.insert(0, os.path.dirname(os.path.dirname(os.path.abspath(__file__))))
from vlib import core
from vlib.props import PROPS

SCR = "/tmp/cov"
FLAGS = ["-std=c++20", "-O0", "-g", "--coverage", "-fno-inline", "-D" + core.GUARD, "-Wno-deprecated-declarations", "-pthread"]


def gcov_json(objdir):
    out = {}
    for gcda in glob.glob(os.path.join(objdir, "*.gcda")):
        r = subprocess.run(["gcov", "--json-format", "--stdout", gcda], capture_output=True, cwd=objdir)
        for doc in r.stdout.decode("utf-8", "replace").split("\n"):
            if not doc.strip():
                continue
            try:
                j = json.loads(doc)
            except ValueError:
                continue
            for f in j.get("files", []):
                fn = os.path.basename(f["file"])
                if not fn.startswith("st_"):
                    continue
                d = out.setdefault(fn, {})
                for ln in f["lines"]:
                    d[ln["line_number"]] = d.get(ln["line_number"], 0) + ln["count"]
    return out


def build_harness(h, flags):
    d = os.path.join(SCR, h + "-" + str(abs(hash(tuple(flags))) % 10000))
    shutil.rmtree(d, ignore_errors=True)
    os.makedirs(os.path.join(d, "gen"))
    inc = os.path.join(core.REPO, "include")
    open(os.path.join(d, "gen", "st_config.h"), "w").write(core.gen_config(open(os.path.join(inc, "st_config.h.in")).read()))
    cmd = ["g++"] + FLAGS + list(flags) + ["-I" + os.path.join(d, "gen"), "-I" + inc, "-I" + os.path.join(core.VERIF, "rt"),
                                           os.path.join(core.VERIF, "harness", h + ".cpp"), "-o", os.path.join(d, h)]
    r = subprocess.run(cmd, capture_output=True, text=True, cwd=d)
    if r.returncode:
        print(r.stderr[-3000:])
        raise SystemExit(1)
    return d


def main():
    props = sys.argv[1:] or sorted(PROPS)
    total = {}
    execd = {}

    def merge(cov, executed_counts):
        for fn, d in cov.items():
            t = total.setdefault(fn, set())
            e = execd.setdefault(fn, {})
            for ln, c in d.items():
                t.add(ln)
                if executed_counts and c:
                    e[ln] = e.get(ln, 0) + c
    done = set()
    for p in props:
        cfg = PROPS[p]
        for r in cfg["runs"]:
            if "quick" not in r.get("tiers", ("quick", "thorough")) or r.get("wrapper"):
                continue
            flags = tuple(r.get("flags", ()))
            d = build_harness(cfg["harness"], flags)
            rundir = os.path.join(d, "run-" + p)
            res = core.run_pool(os.path.join(d, cfg["harness"]), "plain", p, "quick", 1, r.get("workers", cfg.get("workers", 16)), rundir,
                                22, extra_args=tuple(r.get("args", ())), scale=r.get("scale"), wall_limit=3600)
            print(p, cfg["harness"], flags, "wall %.0fs" % res.wall, "violations", list(res.violations)[:3], res.inconclusive[:2], flush=True)
            cov = gcov_json(d)
            merge(cov, True)
            json.dump({fn: sorted(k for k, v in dd.items() if v) for fn, dd in cov.items()}, open(os.path.join(SCR, "exec-%s-%s.json" % (p, len(done))), "w"))
            done.add((p, flags))
            shutil.rmtree(d, ignore_errors=True)
    # unit tests: only to learn which lines are executable (instantiated)
    ut = os.path.join(SCR, "ut")
    shutil.rmtree(ut, ignore_errors=True)
    os.makedirs(ut)
    procs = []
    for t in ("test_buffer", "test_string", "test_codecs", "test_iostream", "test_sstream", "test_format", "test_stdio", "test_regress"):
        procs.append(subprocess.Popen(["g++"] + FLAGS + ["-I/repo/_build/include", "-I/repo/include", "-I/usr/src/googletest/googletest/include",
                                                      "-c", "/repo/test/%s.cpp" % t, "-o", t + ".o"], cwd=ut, stderr=subprocess.DEVNULL))
    for pr in procs:
        pr.wait()
    subprocess.run("g++ --coverage *.o /repo/_build/lib/libgtest.a /repo/_build/lib/libgtest_main.a -pthread -o ut && ./ut >/dev/null 2>&1", shell=True, cwd=ut)
    utcov = gcov_json(ut)
    merge(utcov, False)
    shutil.rmtree(ut, ignore_errors=True)
    rep = {}
    for fn in sorted(total):
        miss = sorted(total[fn] - set(execd.get(fn, {})))
        ut_only = [ln for ln in miss if utcov.get(fn, {}).get(ln, 0)]
        rep[fn] = {"executable": len(total[fn]), "executed_by_harnesses": len(execd.get(fn, {})), "missed": miss, "missed_but_run_by_unit_tests": ut_only}
        print("%-28s executable %5d  executed %5d  missed %4d (of which the unit tests run %d)" % (fn, len(total[fn]), len(execd.get(fn, {})), len(miss), len(ut_only)))
    json.dump(rep, open(os.path.join(SCR, "report.json"), "w"))


if __name__ == "__main__":
    main()
