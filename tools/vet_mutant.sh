#!/bin/sh
# usage: vet_mutant.sh <dir with patch.diff demo.cpp>
# Confirms, in a scratch worktree outside /repo and /verif, that the change
# (1) applies, (2) keeps the 112 unit tests green, (3) makes demo.cpp fail and
# (4) demo.cpp passes without it.  Removes the worktree afterwards.
D="$(cd "$1" && pwd)"
WT=/tmp/vet.$$
git -C /repo worktree add --detach $WT HEAD >/dev/null 2>&1 || exit 2
cleanup() { git -C /repo worktree remove --force $WT >/dev/null 2>&1; rm -rf $WT; }
trap cleanup EXIT
SAN="${VET_SAN:-address,undefined}"
FLAGS="-std=c++20 -O1 -g -fsanitize=$SAN -pthread -I/repo/_build/include -I$WT/include"
g++ $FLAGS "$D/demo.cpp" -o $WT/demo_clean 2>$WT/cc.log || { echo "VET: demo does not compile on clean tree"; tail -5 $WT/cc.log; exit 1; }
( cd $WT && timeout 300 ./demo_clean >/dev/null 2>&1 ); RC_CLEAN=$?
git -C $WT apply "$D/patch.diff" || { echo "VET: patch does not apply"; exit 1; }
TESTS=$(/verif/tools/run_unit_tests.sh $WT 2>&1 | tail -1)
g++ $FLAGS "$D/demo.cpp" -o $WT/demo_mut 2>$WT/cc.log || { echo "VET: demo does not compile with patch"; exit 1; }
( cd $WT && timeout 300 ./demo_mut >/dev/null 2>&1 ); RC_MUT=$?
echo "VET: tests='$TESTS' demo_clean_rc=$RC_CLEAN demo_mutant_rc=$RC_MUT"
case "$TESTS" in *"PASSED  ] 112 tests"*) ;; *) echo "VET: FAIL (unit tests)"; exit 1;; esac
[ $RC_CLEAN -eq 0 ] && [ $RC_MUT -ne 0 ] && { echo "VET: OK"; exit 0; }
echo "VET: FAIL (demo)"; exit 1
