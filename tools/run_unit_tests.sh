#!/bin/sh
# usage: run_unit_tests.sh <worktree of /repo>
# Compiles the repository's own unit tests (test/*.cpp, unedited) against the
# include/ of the given worktree with the flags the baseline build uses, links
# them with the gtest libraries of /repo/_build and runs them.  Last line of
# output is gtest's summary line.
WT="$1"
B="$WT/_ut"
mkdir -p "$B"
FLAGS="-Wno-error -O2 -g0 -DNDEBUG -std=c++20 -DGTEST_HAS_PTHREAD=1 -I/repo/_build/include -I$WT/include -I/usr/src/googletest/googletest/include"
for f in test_buffer test_string test_codecs test_iostream test_sstream test_format test_stdio test_regress; do
  g++ $FLAGS -c "$WT/test/$f.cpp" -o "$B/$f.o" 2>"$B/$f.log" &
done
wait
g++ "$B"/*.o /repo/_build/lib/libgtest.a /repo/_build/lib/libgtest_main.a -pthread -o "$B/st_gtests" 2>"$B/link.log" || { cat "$B"/*.log | tail -20; echo "BUILD FAILED"; exit 1; }
( cd "$B" && timeout 600 ./st_gtests > ut.out 2>&1 )
grep -E "^\[  FAILED  \] [A-Za-z_]+\." "$B/ut.out" | sort -u | head -10
grep -E "\[  PASSED  \]" "$B/ut.out" | tail -1
